"""C03 - stoichiometry and net rate equations follow the reaction list.

R3.1 multiset accumulation: in Model.create_reaction each of the four species lists is folded
into its update dictionary by `d[x] = 0 if absent; d[x] += sign` with the right sign and the
right (immediate / delayed) dictionary, with no early exit.
R3.2 tuple-position agreement between _add_reaction's reaction_list entries and their readers.
R3.3 matrix fill: update_array[species2index[sp], r] = immediate[sp], delay_update_array
likewise, for every species of every reaction; shape (species, reactions); rows only through
species2index.
R3.4 derivative: the compressed stoichiometry holds exactly the non-zero entries of
immediate + delayed, and dxdt[s] = sum_j prop[S_indices[s][j]] * S_values[s][j] after the
propensities were computed at (x, t).
R3.5 initialisation check: check_parameters precedes `initialized = True`, raises when a value
is NaN, and new parameters start as NaN.
R3.6 rebuilt after change: every Model method that changes the reaction list, the species or the parameters clears `initialized`
on each path that writes (C08 R8.1), and an interface refuses / re-initialises a model whose flag is clear (C08 R8.2).
"""
import ast

import sympy as sp

from .. import paths, symx, util
from ..front import AnalysisError, src

EXPLANATION = __doc__
ASSUMPTIONS = ['stoichiometric entries are integers (sums of +-1)']


def k(t):
    return t.replace(' ', '')


def check_accumulation(ctx):
    f = ctx.fn('types:Model.create_reaction')
    where = ctx.loc('types', f)
    spec = {'reactants': ('reaction_update_dict', ast.Sub), 'products': ('reaction_update_dict', ast.Add),
            'delay_reactants': ('delay_reaction_update_dict', ast.Sub), 'delay_products': ('delay_reaction_update_dict', ast.Add)}
    for lst, (dic, op) in spec.items():
        loops = [n for n in ast.walk(f) if isinstance(n, ast.For) and src(n.iter) == lst
                 and any(isinstance(x, (ast.AugAssign, ast.Assign)) and isinstance((x.target if isinstance(x, ast.AugAssign) else x.targets[0]), ast.Subscript)
                         and src((x.target if isinstance(x, ast.AugAssign) else x.targets[0]).value).endswith('update_dict') for x in ast.walk(n))]
        problems = []
        if len(loops) != 1:
            problems.append('%d loops over %s' % (len(loops), lst))
        else:
            lp = loops[0]
            v = src(lp.target)
            if any(isinstance(x, (ast.Break, ast.Continue, ast.Return)) for x in ast.walk(lp)):
                problems.append('the loop can skip occurrences')
            augs = [x for x in ast.walk(lp) if isinstance(x, ast.AugAssign) and isinstance(x.target, ast.Subscript)]
            if len(augs) != 1:
                problems.append('%d accumulations in the loop' % len(augs))
            else:
                a = augs[0]
                if src(a.target.value) != dic:
                    problems.append('occurrences are accumulated into %s, expected %s' % (src(a.target.value), dic))
                if src(a.target.slice) != v:
                    problems.append('accumulates entry %s' % src(a.target.slice))
                if type(a.op) is not op or util.const_num(a.value) != 1:
                    problems.append('each occurrence contributes `%s`, expected %s 1' % (util.stmt_key(a), '-=' if op is ast.Sub else '+='))
                if a not in lp.body:
                    problems.append('the accumulation is conditional')
            inits = [x for x in lp.body if isinstance(x, ast.If) and k(src(x.test)) == '%snotin%s' % (v, dic)]
            if len(inits) != 1 or [k(util.stmt_key(y)) for y in inits[0].body] != ['%s[%s]=0' % (dic, v)] or inits[0].orelse:
                problems.append('a new species does not start from 0 (only when absent)')
            plain = [x for x in ast.walk(lp) if isinstance(x, ast.Assign) and isinstance(x.targets[0], ast.Subscript) and src(x.targets[0].value) == dic]
            if len(plain) != 1:
                problems.append('%d plain stores into %s inside the loop' % (len(plain), dic))
        ctx.ob('R3.1-accumulation', lst, not problems, where,
               'every occurrence in %s contributes %s1 to %s[species]' % (lst, '-' if op is ast.Sub else '+', dic), '; '.join(problems))
    # the dictionaries start empty
    txt = [k(util.stmt_key(s)) for s in f.body]
    ok = 'reaction_update_dict={}' in txt and 'delay_reaction_update_dict={}' in txt
    ctx.ob('R3.1-accumulation', 'fresh-dicts', ok, where, 'both update dictionaries start empty for each reaction', '')
    calls = util.calls_in(f, suffix='_add_reaction')
    ok = len(calls) == 1 and [src(a) for a in calls[0].args] == ['reaction_update_dict', 'prop_object', 'propensity_param_dict', 'delay_reaction_update_dict',
                                                               'delay_object', 'delay_param_dict']
    ctx.ob('R3.2-tuple-positions', 'create_reaction->_add_reaction', ok, where, 'the dictionaries are handed over in the roles _add_reaction expects', '')


def check_tuple(ctx):
    f = ctx.fn('types:Model._add_reaction')
    a = [x.arg for x in f.args.args[1:]]
    apps = [c for c in util.calls_in(f, suffix='self.reaction_list.append')]
    ok = len(apps) == 1 and k(src(apps[0].args[0])) == '(propensity_object,delay_object,reaction_update_dict,delay_reaction_update_dict)' and \
        a[:6] == ['reaction_update_dict', 'propensity_object', 'propensity_param_dict', 'delay_reaction_update_dict', 'delay_object', 'delay_param_dict']
    ctx.ob('R3.2-tuple-positions', '_add_reaction', ok, ctx.loc('types', f), 'reaction_list entries are (propensity, delay, immediate dict, delayed dict)', '')
    for fn in ('_create_vectors', '_create_stochiometric_matrices'):
        g = ctx.fn('types:Model.%s' % fn)
        lp, ridx, rxn = reaction_loop(g)
        names = unpack4(lp, rxn) if lp is not None else None
        ok = names is not None
        detail = str(names)
        if ok and fn == '_create_vectors':
            txt = [k(util.stmt_key(s)) for s in ast.walk(g) if isinstance(s, ast.stmt)]
            ok = 'self.propensities.append(%s)' % names[0] in txt and 'self.delays.append(%s)' % names[1] in txt and \
                "self.c_propensities.push_back(__cast__('void*',%s))" % names[0] in txt and "self.c_delays.push_back(__cast__('void*',%s))" % names[1] in txt
        ctx.ob('R3.2-tuple-positions', fn, ok, ctx.loc('types', g), '%s unpacks the 4 positions (propensity, delay, immediate, delayed) in that order' % fn, detail)


def reaction_loop(f):
    """the loop over all reactions in f: (loop node, reaction-index name, text of the expression holding the reaction tuple)"""
    for lp in [x for x in f.body if isinstance(x, ast.For)]:
        it = k(src(lp.iter))
        if it in ('range(num_reactions)', 'range(len(self.reaction_list))') and isinstance(lp.target, ast.Name):
            return lp, lp.target.id, 'self.reaction_list[%s]' % lp.target.id
        if it == 'enumerate(self.reaction_list)' and isinstance(lp.target, ast.Tuple) and len(lp.target.elts) == 2:
            return lp, src(lp.target.elts[0]), src(lp.target.elts[1])
        if it == 'self.reaction_list' and isinstance(lp.target, ast.Name):
            return lp, None, lp.target.id
    return None, None, None


def unpack4(lp, rxn_text):
    for s_ in lp.body:
        if isinstance(s_, ast.Assign) and isinstance(s_.targets[0], ast.Tuple) and len(s_.targets[0].elts) == 4 and k(src(s_.value)) == k(rxn_text):
            return [src(e) for e in s_.targets[0].elts]
    if isinstance(lp.target, ast.Tuple) and len(lp.target.elts) == 4:
        return [src(e) for e in lp.target.elts]
    return None


def check_matrices(ctx):
    f = ctx.fn('types:Model._create_stochiometric_matrices')
    where = ctx.loc('types', f)
    txt = [k(util.stmt_key(s)) for s in ast.walk(f) if isinstance(s, ast.stmt)]
    problems = []
    shape = None
    for n in txt:
        for arr in ('update_array', 'delay_update_array'):
            if n.startswith('self.%s=np.zeros((' % arr):
                shape = n
                node = [x for x in ast.walk(f) if isinstance(x, ast.Assign) and k(util.stmt_key(x)) == n][0]
                tup = node.value.args[0]
                dims = [k(src(e)) for e in tup.elts] if isinstance(tup, ast.Tuple) else [k(src(tup))]
                asg = {x.split('=')[0]: x.split('=', 1)[1] for x in txt if '=' in x and x.split('=')[0].isidentifier()}
                d = [asg.get(x, x) for x in dims[:2]] + [None, None]
                if d[0] not in ('len(self.species2index.keys())', 'len(self.species2index)') or d[1] != 'len(self.reaction_list)':
                    problems.append('%s allocated with shape (%s, %s)' % (arr, d[0], d[1]))
    if len([n for n in txt if n.startswith('self.update_array=np.zeros((')]) != 1 or len([n for n in txt if n.startswith('self.delay_update_array=np.zeros((')]) != 1:
        problems.append('the two matrices are not each allocated afresh once')
    lp, ridx, rxn = reaction_loop(f)
    names = unpack4(lp, rxn) if lp is not None else None
    if lp is None or ridx is None or names is None:
        problems.append('loop over all reactions with the 4-tuple unpacked not found')
    else:
        imm, dly = names[2], names[3]
        for dic, arr in ((imm, 'self.update_array'), (dly, 'self.delay_update_array')):
            inner = [x for x in ast.walk(lp) if isinstance(x, ast.For) and x is not lp and k(src(x.iter)) in (dic, dic + '.keys()')]
            if len(inner) != 1:
                problems.append('no loop over the species of %s' % dic)
                continue
            il = inner[0]
            sp_ = src(il.target)
            stores = [x for x in ast.walk(il) if isinstance(x, (ast.Assign, ast.AugAssign))]
            want = '%s[self.species2index[%s],%s]=%s[%s]' % (arr, sp_, ridx, dic, sp_)
            # the entry may be named first: a local assigned once in the loop body is read through
            wrap_ = ast.FunctionDef(name='_b', args=ast.arguments(posonlyargs=[], args=[], kwonlyargs=[], kw_defaults=[], defaults=[]), body=il.body,
                                    decorator_list=[], type_params=[])
            tdefs = {n_: v_ for n_, v_ in util.single_defs(wrap_).items() if v_ is not None}
            real = [x for x in stores if not (isinstance(x, ast.Assign) and isinstance(x.targets[0], ast.Name) and x.targets[0].id in tdefs)]
            got_ = [k('%s=%s' % (src(x.targets[0]), src(util.inline(x.value, tdefs)))) if isinstance(x, ast.Assign) else k(util.stmt_key(x)) for x in real]
            if got_ != [want] and [k(util.stmt_key(x)) for x in stores] != [want]:
                problems.append('fill of %s is %s, expected %s' % (arr, [util.stmt_key(x) for x in stores], want))
            if any(isinstance(x, (ast.Break, ast.Continue)) for x in ast.walk(il)):
                problems.append('a fill loop can skip entries')
            for g in [x for x in ast.walk(il) if isinstance(x, ast.If)]:
                if util.canon_test(g.test) not in ("''!=%s" % sp_,):
                    problems.append('entries are filled under the condition %s' % src(g.test))
        fills = [x for x in ast.walk(lp) if isinstance(x, ast.For) and x is not lp and k(src(x.iter)).replace('.keys()', '') in (imm, dly)]
        # each fill loop runs for every reaction: the only condition it may stand under is that its own dictionary is not empty
        for il_ in fills:
            d_ = k(src(il_.iter)).replace('.keys()', '')
            g_ = {x for x in util.guards_of(il_, lp) if x.replace(' ', '') not in (d_, 'len(%s)>0' % d_, '0<len(%s)' % d_, 'len(%s)!=0' % d_, '0!=len(%s)' % d_)}
            if g_:
                problems.append('the fill loop over %s is skipped unless %s' % (src(il_.iter), ' and '.join(sorted(g_))))
        if any(isinstance(x, ast.Break) for x in ast.walk(lp)):
            problems.append('the reaction loop can stop early')
    ctx.ob('R3.3-matrix-fill', '_create_stochiometric_matrices', not problems, where,
           'matrix[species2index[sp], r] = dict_r[sp] for every species of every reaction; fresh zero matrices of shape (species, reactions)', '; '.join(problems))


def check_derivative(ctx):
    f = util.inline_pure_temps(ctx.fn('simulator:CSimInterface.prep_deterministic_simulation'))
    where = ctx.loc('simulator', f)
    txt = [k(util.stmt_key(s)) for s in ast.walk(f) if isinstance(s, ast.stmt)]
    problems = []
    need = ['self.S_indices.clear()', 'self.S_values.clear()', 'self.S_indices.push_back(vector[int]())', 'self.S_values.push_back(vector[int]())',
            'self.S_indices[s].push_back(r)', 'self.S_values[s].push_back(self.update_array[s,r]+self.delay_update_array[s,r])',
            'self.propensity_buffer=np.zeros(self.num_reactions)']
    for n in need:
        if n not in txt and n.replace('np.zeros(self.num_reactions)', 'np.zeros((self.num_reactions,))') not in txt:
            problems.append('missing: %s' % n)
    loops = [k(src(l.iter)) for l in ast.walk(f) if isinstance(l, ast.For)]
    if loops != ['range(self.num_species)', 'range(self.num_reactions)'] and sorted(loops) != sorted(['range(self.num_species)', 'range(self.num_reactions)']):
        problems.append('loops %s' % loops)
    ifs = [n for n in ast.walk(f) if isinstance(n, ast.If)]
    if len(ifs) != 1 or k(src(ifs[0].test)) not in ('self.update_array[s,r]+self.delay_update_array[s,r]!=0',):
        problems.append('entries are kept under the test %s, expected immediate + delayed != 0' % [src(i.test) for i in ifs])
    ctx.ob('R3.4-derivative', 'prep_deterministic_simulation', not problems, where,
           'row s of the compressed stoichiometry holds (r, immediate[s,r] + delayed[s,r]) for exactly the r where that sum is non-zero', '; '.join(problems))
    f = ctx.fn('simulator:CSimInterface.calculate_deterministic_derivative')
    a = [x.arg for x in f.args.args[1:]]
    x, dx, t = a
    problems = []
    stm = [s for s in f.body if not isinstance(s, ast.AnnAssign)]
    txt = [k(util.stmt_key(s)) for s in ast.walk(f) if isinstance(s, ast.stmt)]
    call = 'self.compute_propensities(%s,prop,%s)' % (x, t)
    if call not in txt or "prop=__cast__('double*',self.propensity_buffer.data)" not in txt:
        problems.append('propensities are not computed at (x, t) into the buffer that is read')
    outer = [s for s in f.body if isinstance(s, ast.For)]
    if len(outer) != 1 or k(src(outer[0].iter)) != 'range(self.num_species)':
        problems.append('no loop over all species')
    else:
        if call in txt and [k(util.stmt_key(s)) for s in f.body].index(call) > f.body.index(outer[0]) if call in [k(util.stmt_key(s)) for s in f.body] else False:
            problems.append('propensities computed after the sum')
        se = symx.SymExec(None, None)
        s_ = src(outer[0].target)
        g = ast.FunctionDef(name='g', args=ast.arguments(posonlyargs=[], args=[], kwonlyargs=[], kw_defaults=[], defaults=[]),
                            body=util.structure_continues(outer[0].body), decorator_list=[], type_params=[])
        S = sp.Symbol('s', integer=True, nonnegative=True)
        try:
            final, _ = se.run_env(g, {s_: S})
            val = final.get('%s[%s]' % (dx, s_))
            from .c01 import instantiate
            if val is None:
                raise AnalysisError('no store into %s[%s] found' % (dx, s_))
            sz = [q for q in val.atoms(sp.Function) if 'size' in str(q.func)]
            # rows of every length, the empty row (a species no reaction changes: the derivative is the empty sum 0) included
            for n_ in (0, 1, 2, 3):
                got = instantiate(val, {q: sp.Integer(n_) for q in sz})
                if isinstance(got, sp.Piecewise):
                    got = sp.piecewise_fold(got).doit()
                exp = sum((symx.posfun('prop')(symx.posfun('self.S_indices[%s]' % s_)(sp.Integer(j_))) * symx.posfun('self.S_values[%s]' % s_)(sp.Integer(j_))
                           for j_ in range(n_)), sp.Integer(0))
                if sp.simplify(got - exp) != 0:
                    problems.append('for a row with %d entries dxdt[s] is %s, expected sum_j prop[S_indices[s][j]] * S_values[s][j] = %s (extracted: %s)'
                                    % (n_, got, exp, val))
                    break
        except AnalysisError as e:
            problems.append(str(e))
    ctx.ob('R3.4-derivative', 'calculate_deterministic_derivative', not problems, ctx.loc('simulator', f),
           'dxdt[s] = sum_j prop[S_indices[s][j]] * S_values[s][j], with prop computed at (x, t) first', '; '.join(problems))
    # the derivative a caller of the Python API is given is that same function: the wrapper only forwards its arguments
    w = ctx.fn('simulator:CSimInterface.py_calculate_deterministic_derivative')
    ok, detail = util.delegation(w, 'calculate_deterministic_derivative')
    ctx.ob('R3.4-derivative', 'py_calculate_deterministic_derivative', ok, ctx.loc('simulator', w),
           'the Python-level derivative is the interface\'s calculate_deterministic_derivative at the given (x, dx, t), nothing else', detail)
    for cls_ in ('ModelCSimInterface', 'SafeModelCSimInterface'):
        dc, m_ = ctx.prog.resolve_method(cls_, 'py_calculate_deterministic_derivative')
        ctx.ob('R3.4-derivative', 'py_calculate_deterministic_derivative/%s' % cls_, dc == 'CSimInterface', ctx.loc('simulator', m_) if m_ is not None else '',
               'the model interfaces do not replace the forwarding wrapper', 'resolved in %s' % dc)


def check_constructor_reactions(ctx):
    """Model(reactions=[...]) hands every reaction tuple to create_reaction with its own fields: the constructor's loop is evaluated
    (templates.StrExec) on a sample list that mixes 8-tuples (with delay fields) and 4-tuples in both orders - a 4-tuple has no delay,
    whatever came before it."""
    from ..templates import StrExec, Hole, UNKNOWN
    f = ctx.fn('types:Model.__init__')
    dc, cr = ctx.prog.resolve_method('Model', 'create_reaction')
    cr_params = [a.arg for a in cr.args.args[1:]]
    sample = [[[Hole('A')], [Hole('B')], 'massaction', {'k': 1.0}, 'fixed', [Hole('DA')], [Hole('DB')], {'delay': 2.0}],
              [[Hole('B')], [Hole('C')], 'massaction', {'k': 2.0}],
              [[Hole('C')], [], 'massaction', {'k': 3.0}, 'gamma', [], [Hole('DC')], {'k': 2.0, 'theta': 1.0}],
              [[Hole('A')], [Hole('C')], 'massaction', {'k': 4.0}]]
    got = []

    def hook(n, ex):
        if isinstance(n.func, ast.Attribute) and n.func.attr == 'create_reaction' and src(n.func.value) == 'self':
            vals = dict(zip(cr_params, [ex.ev(a) for a in n.args]))
            for kw in n.keywords:
                if kw.arg is not None:
                    vals[kw.arg] = ex.ev(kw.value)
            got.append([vals.get(p_) for p_ in cr_params[:8]])
        return None
    env = {}
    ex = StrExec(env, tracked=set(), call_hook=hook)
    dfl = f.args.defaults
    for a, dv in zip(f.args.args[len(f.args.args) - len(dfl):], dfl):
        env[a.arg] = ex.ev(dv)
    env.update({'reactions': [list(r) for r in sample], 'species': [], 'parameters': [], 'rules': [], 'initial_condition_dict': None,
                'sbml_filename': None, 'filename': None, 'initialize_model': False, 'input_printout': False})
    ex.env = env
    ex.frozen = set(env)
    ex.run(f.body)
    want = [r + [None] * (8 - len(r)) for r in sample]
    ok = not ex.aborted and got == want
    detail = ''
    if not ok:
        bad = [i for i in range(min(len(got), len(want))) if got[i] != want[i]]
        detail = ('reaction %d of the sample list is created as %r, the tuple says %r' % (bad[0], got[bad[0]], want[bad[0]])) if bad else \
            '%d create_reaction calls for %d tuples%s' % (len(got), len(want), ' (%s)' % ex.aborted if ex.aborted else '')
    ctx.ob('R3.1-accumulation', 'constructor-tuples', ok, ctx.loc('types', f),
           'the constructor hands each reaction tuple to create_reaction with its own fields; a 4-tuple carries no delay fields (4 sample tuples)', detail)


def check_init(ctx):
    f = ctx.fn('types:Model._initialize')
    txt = [k(util.stmt_key(s)) for s in f.body]
    ok = 'self.check_parameters()' in txt and 'self.initialized=True' in txt and txt.index('self.check_parameters()') < txt.index('self.initialized=True') \
        and all(not isinstance(s, (ast.If, ast.Try, ast.Return)) for s in f.body)
    ctx.ob('R3.5-initialisation-check', '_initialize', ok, ctx.loc('types', f), 'check_parameters() runs unconditionally before the model is marked initialised', str(txt))
    f = ctx.fn('types:Model.check_parameters')
    en = paths.Enumerator()
    loops = [s for s in f.body if isinstance(s, ast.For)]
    problems = []
    it_ = k(src(loops[0].iter)) if len(loops) == 1 else None
    if it_ not in ('self.params2index', 'self.params2index.keys()', 'self.params2index.items()', 'self.params2index.values()'):
        problems.append('no loop over all parameters')
    else:
        lp = loops[0]
        ifs = [s for s in lp.body if isinstance(s, ast.If)]
        flag = None
        defs = util.single_defs(f)
        # the loop's view of one parameter: its name and / or its index
        key_var = idx_var = None
        if it_.endswith('.items()') and isinstance(lp.target, ast.Tuple) and len(lp.target.elts) == 2:
            key_var, idx_var = src(lp.target.elts[0]), src(lp.target.elts[1])
        elif it_.endswith('.values()'):
            idx_var = src(lp.target)
        else:
            key_var = src(lp.target)
        accepted = set()
        if key_var:
            accepted.add('np.isnan(self.params_values[self.params2index[%s]])' % key_var)
        if idx_var:
            accepted.add('np.isnan(self.params_values[%s])' % idx_var)
        if len(ifs) == 1 and k(src(util.inline(ifs[0].test, defs))) in accepted:
            for s in ifs[0].body:
                if isinstance(s, ast.Assign) and util.is_const(s.value, True):
                    flag = src(s.targets[0])
        if flag is None:
            problems.append('a NaN value does not set a flag')
        else:
            tail = [s for s in f.body[f.body.index(lp) + 1:] if isinstance(s, ast.If)]
            if not tail or src(tail[0].test) != flag or not any(isinstance(x, ast.Raise) for x in tail[0].body):
                problems.append('the flag does not lead to a raise')
        if any(isinstance(x, (ast.Assign, ast.AugAssign)) and any(src(t_) in (key_var, idx_var) for t_ in (x.targets if isinstance(x, ast.Assign) else [x.target]))
               for x in ast.walk(lp)):
            problems.append('the loop variable is rewritten inside the loop')
        if any(isinstance(x, (ast.Break, ast.Continue, ast.Return)) for x in ast.walk(lp)):
            problems.append('the scan can stop early without raising')
    ctx.ob('R3.5-initialisation-check', 'check_parameters', not problems, ctx.loc('types', f), 'check_parameters raises whenever some parameter value is NaN', '; '.join(problems))
    f = ctx.fn('types:Model._add_param')
    txt = [k(util.stmt_key(s)) for s in ast.walk(f) if isinstance(s, ast.stmt)]
    ok = any('np.nan' in t and t.startswith('self.params_values=np.concatenate(') for t in txt)
    ctx.ob('R3.5-initialisation-check', '_add_param', ok, ctx.loc('types', f), 'a new parameter starts without a value (NaN)', '')
    # ... and keeps none until the caller gives one: every value stored into params_values by a method of the model classes comes from
    # an argument of that method (set_parameter / set_params / a numeric entry of a parameter dictionary), never from a constant
    problems = []
    n = 0
    for cname in ('Model', 'LineageModel'):
        ci = ctx.prog.classes.get(cname)
        if ci is None:
            continue
        for mname, g in ci.methods.items():
            if mname in ('__setstate__', '__init__', '_add_param') or not hasattr(g, 'args'):
                continue
            argn = {a_.arg for a_ in g.args.args[1:]} | ({g.args.vararg.arg} if g.args.vararg else set()) | ({g.args.kwarg.arg} if g.args.kwarg else set())
            sd_ = {n_: v_ for n_, v_ in util.single_defs(g).items() if v_ is not None}
            # names bound by a loop over something that reads an argument stand for the argument (`for p, v in param_dict.items()`)
            grew = True
            while grew:
                grew = False
                for l_ in ast.walk(g):
                    if isinstance(l_, (ast.For, ast.comprehension)) and any(isinstance(x_, ast.Name) and x_.id in argn for x_ in ast.walk(l_.iter)):
                        for x_ in ast.walk(l_.target):
                            if isinstance(x_, ast.Name) and x_.id not in argn:
                                argn.add(x_.id)
                                grew = True
            vals = []
            for n_ in ast.walk(g):
                if isinstance(n_, (ast.Assign, ast.AugAssign)):
                    for t_ in (n_.targets if isinstance(n_, ast.Assign) else [n_.target]):
                        if isinstance(t_, ast.Subscript) and src(t_.value) == 'self.params_values':
                            vals.append((n_, n_.value))
                elif isinstance(n_, ast.Call) and isinstance(n_.func, ast.Attribute) and src(n_.func.value) == 'self' and n_.func.attr in ('set_parameter', 'create_parameter') \
                        and len(n_.args) == 2:
                    vals.append((n_, n_.args[1]))
            for node_, v_ in vals:
                n += 1
                v2 = util.inline(v_, sd_)
                reads_arg = any(isinstance(x_, ast.Name) and x_.id in argn for x_ in ast.walk(v2))
                # loop variables over an argument count as the argument (`for p in param_dict: ... param_dict[p]`)
                if not reads_arg:
                    problems.append('%s.%s: `%s` (%s) stores a value that does not come from the caller' % (cname, mname, util.stmt_key(node_)[:70] if isinstance(node_, ast.stmt) else src(node_)[:70], ctx.loc(ci.module, node_)))
    ctx.ob('R3.5-initialisation-check', 'values-from-caller', not problems and n >= 2, ctx.loc('types', f),
           'a parameter has a value only once the caller has given it one: no method of the model invents a value for a parameter that has none',
           '; '.join(problems[:2]))


def check(ctx):
    for m in ('types', 'types.pxd', 'simulator', 'simulator.pxd'):
        ctx.prog.mod(m)
    check_accumulation(ctx)
    check_tuple(ctx)
    check_matrices(ctx)
    check_constructor_reactions(ctx)
    check_derivative(ctx)
    check_init(ctx)
    # "follow the reaction list": the matrices are built when the model is initialised, so every method that changes the reaction
    # list, the species or the parameters must clear the flag that makes the next use rebuild them (C08 R8.1, re-emitted here for the
    # methods that touch the reactions and the index dictionaries), and a stale model must be refused (R8.2)
    from ..core import SubCtx
    from . import c08
    for m in ('random', 'lineage', 'lineage.pxd', 'inference'):
        ctx.prog.mod(m)
    sub = SubCtx(ctx)
    c08.check_invalidation(sub, 'Model', c08.DEF_FIELDS)
    c08.check_refusal(sub)
    n_re = 0
    for rule, key, ok, where, what, detail in sub.got:
        if (rule == 'R8.1-invalidate' and key.startswith('Model.') and ('reaction' in key or '_add_' in key)) or rule == 'R8.2-stale-refused':
            ctx.ob('R3.6-rebuilt-after-change', '%s/%s' % (rule, key), ok, where, what, detail)
            n_re += 1
    # ... "whatever the order", also across a copy: the reaction list the matrices are built from is part of the state a pickle or
    # deep copy of the model carries (C17 R17.1 / R17.2 for Model) - re-emitted here
    from . import c17
    for m in ('simulator', 'simulator.pxd'):
        ctx.prog.mod(m)
    sub = SubCtx(ctx)
    covered = c17.check_pairs(sub)
    c17.check_coverage(sub, covered)
    for rule, key, ok, where, what, detail in sub.got:
        if rule in ('R17.1-positions', 'R17.2-coverage') and key == 'Model':
            ctx.ob('R3.6-rebuilt-after-change', 'copies/%s/%s' % (rule, key), ok, where, what, detail)
    ctx.floor('R3.6-rebuilt-after-change', 6)
    ctx.floor('R3.1-accumulation', 5)
    ctx.floor('R3.2-tuple-positions', 4)
    ctx.floor('R3.4-derivative', 2)
