"""C09 - rules hold on every reported row and fire on their schedule.

R9.1 firing predicate of Rule.execute_rule / execute_volume_rule and the frequency-flag table.
R9.2 rule operations (additive, assignment, ode; plain and volume variants) and destination binding.
R9.3 in every simulator loop the rules are applied first in each iteration, before the
propensities, and the interface applies all rules in index order with its dt.
R9.4 rule_step at the loop back edge is 1 exactly on arrivals on the single time grid the
simulator steps its dt rules on (time points for the plain and delay simulators, the dt queue for
the volume-aware and lineage simulators) and 0 after a reaction or a delay delivery.
R9.5 deterministic mode: rules inside the right-hand side and re-applied to every output row.
R9.6 each rule object is registered exactly once per initialisation (Model and LineageModel).
R9.7 the step the rules see is the grid step: entry points set the interface dt from the grid.
R9.8 constructors: Model.__init__ and LineageModel.__init__, partially evaluated on a sample rule list, hand every rule tuple to
create_rule / the base constructor with its type, attributes and frequency, in order.
"""
import ast

import sympy as sp

from .. import paths, simloop, symx, util
from ..front import AnalysisError, src

EXPLANATION = __doc__
ASSUMPTIONS = ['scheduled times are exact elements of the time grid (property side-condition)',
               'how often a dt rule runs at the initial instant is not part of the claim']


# ------------------------------------------------------------------------------ R9.1
def check_predicate(ctx):
    prog = ctx.prog
    for meth, op, nargs in (('execute_rule', 'rule_operation', 4), ('execute_volume_rule', 'rule_volume_operation', 5)):
        f = ctx.fn('types:Rule.%s' % meth)
        where = ctx.loc('types', f)
        # whether a rule fires is a function of its schedule, the time and the kind of pass - nothing a firing leaves behind: the rule
        # objects belong to the model and serve every simulation of it, so the deciding method stores nothing in the rule
        stores = [util.stmt_key(n_)[:60] for n_ in ast.walk(f) if isinstance(n_, (ast.Assign, ast.AugAssign))
                  for t_ in (n_.targets if isinstance(n_, ast.Assign) else [n_.target])
                  if isinstance(t_, (ast.Attribute, ast.Subscript)) and src(t_).split('.')[0].split('[')[0] == 'self']
        ctx.ob('R9.1-firing-predicate', '%s/stateless' % meth, not stores, where,
               'deciding whether a rule fires leaves nothing behind in the rule object (a second simulation of the model sees the same schedule)',
               '; '.join(stores[:2]))
        ifs = [s for s in f.body if isinstance(s, ast.If)]
        problems = []
        if len(ifs) != 1 or ifs[0].orelse:
            if stores:
                ctx.note('Rule.%s: not a single guarded operation; the firing predicate was not analysed further' % meth)
                continue
            raise AnalysisError('Rule.%s: expected a single guarded operation' % meth)
        a = [x.arg for x in f.args.args[1:]]
        tname, rname = a[-3], a[-1]
        se = symx.SymExec(prog, 'Rule')
        ff, tm, rs = sp.Symbol('ff', real=True), sp.Symbol('tm', real=True), sp.Symbol('rs', real=True)
        dts = sp.Symbol('dts', positive=True)
        env = {tname: tm, rname: rs, 'self.frequency_flag': ff, a[-2]: dts}
        cond = se._bool(se.ex(ifs[0].test, env))
        bad = None
        for fv in (-2, -1, 0, 3, 5):
            for tv in (0, 3, sp.Rational(31, 10), sp.Rational(29, 10)):       # on the scheduled time, and just beside it
                for rv in (0, 1):
                    try:
                        got = bool(cond.subs({ff: fv, tm: tv, rs: rv, dts: sp.Rational(1, 4)}))
                    except TypeError:
                        problems.append('the firing test depends on something other than the flag, the time and rule_step: %s' % cond)
                        got = None
                    exp = (fv == -1) or (fv == tv) or (rv == 1 and fv == -2)
                    if got is not None and got != exp:
                        bad = (fv, tv, rv, got)
        if bad:
            problems.append('flag %s, time %s, rule_step %s: fires=%s' % bad)
        body = [util.stmt_key(s) for s in ifs[0].body]
        want = 'self.%s(%s)' % (op, ', '.join(a[:-1]))
        if body != [want]:
            problems.append('guarded operation is %s, expected %s' % (body, want))
        ctx.ob('R9.1-firing-predicate', meth, not problems, where,
               'a rule fires iff flag == -1 (repeated) or flag == time (scheduled) or (rule_step and flag == -2) (dt)', '; '.join(problems))
    # the frequency table, by evaluation (templates.StrExec) of set_frequency_flag on each kind of argument - whatever the code's shape
    from ..templates import StrExec, UNKNOWN
    from .. import simloop
    f = ctx.fn('types:Rule.set_frequency_flag')
    var = f.args.args[1].arg
    problems = []
    for arg, want in (('start', 0.0), ('repeat', -1.0), ('repeated', -1.0), ('dt', -2.0), (3.7, 3.7), (0.0, 0.0), ('12.5', 12.5), (-4.0, 'error')):
        ex = StrExec({var: arg}, tracked=set())
        ex.run(f.body)
        got = ex.env.get('self.frequency_flag', UNKNOWN)
        if want == 'error':
            if not ex.aborted:
                problems.append('%r is accepted (flag %r): a negative time is not a schedule' % (arg, got))
        elif ex.aborted:
            problems.append('%r is rejected (%s)' % (arg, ex.aborted))
        elif got is UNKNOWN or not isinstance(got, (int, float)) or float(got) != want:
            problems.append('%r sets the flag to %r, expected %s' % (arg, got, want))
    ctx.ob('R9.1-frequency-table', 'set_frequency_flag', not problems, ctx.loc('types', f),
           "'start'->0, 'repeat'/'repeated'->-1, 'dt'->-2, t>=0 -> t, otherwise error (8 arguments evaluated)", '; '.join(problems[:3]))
    # scheduled times are compared with the clock exactly (flag == time): they are stored and compared as C doubles - a single-precision
    # local or attribute on the way rounds a time such as 3.7 to a value no grid point equals
    sp_ = []
    for cname in ['Rule'] + ctx.prog.subclasses('Rule'):
        ci = ctx.prog.classes[cname]
        for aname, atype in ci.attrs.items():
            if str(atype).replace(' ', '') in ('float', 'float*'):
                sp_.append('%s.%s is declared %s' % (cname, aname, atype))
        for mname, m_ in ci.methods.items():
            for n_, node_ in simloop.single_precision_decls(m_):
                sp_.append('%s in %s.%s (%s)' % (n_, cname, mname, ctx.loc(ci.module, node_)))
    ctx.ob('R9.1-frequency-table', 'precision', not sp_, ctx.loc('types', f),
           'no attribute or local of the rule classes is declared single precision', '; '.join(sorted(set(sp_))[:3]))
    f = ctx.fn('types:Model.create_rule')
    disp = util.string_dispatch(f.body, 'rule_type')
    problems = []
    want = {'additive': 'AdditiveAssignmentRule', 'assignment': 'GeneralAssignmentRule', 'ode': 'GeneralODERule'}
    if disp is None:
        raise AnalysisError('create_rule: dispatch not found')
    for lit, cls in want.items():
        body = disp[0].get(lit) or []
        inst = [src(s.value.func) for s in body if isinstance(s, ast.Assign) and isinstance(s.value, ast.Call) and src(s.value.func).endswith('Rule')]
        if inst != [cls]:
            problems.append("'%s' creates %s" % (lit, inst))
    ode = [util.stmt_key(s) for s in (disp[0].get('ode') or [])]
    if "rule_frequency = 'dt'" not in ode:
        problems.append("an ode rule is not forced to frequency 'dt'")
    calls = [c for c in util.calls_in(f, suffix='initialize')]
    if not any(any(k.arg == 'rule_frequency' and src(k.value) == 'rule_frequency' for k in c.keywords) for c in calls):
        problems.append('the frequency is not passed to the rule object')
    ctx.ob('R9.1-frequency-table', 'create_rule', not problems, ctx.loc('types', f),
           'rule type strings create the matching class with the requested frequency (ode: dt)', '; '.join(problems))
    for cls in want.values():
        f = ctx.fn('types:%s.initialize' % cls)
        first = [util.stmt_key(s) for s in f.body if not (isinstance(s, ast.Expr) and 'print' in src(s))][:2]
        ctx.ob('R9.1-frequency-table', '%s.initialize' % cls, 'self.set_frequency_flag(rule_frequency)' in first, ctx.loc('types', f),
               'initialize stores the requested frequency', str(first))


# ------------------------------------------------------------------------------ R9.2
def branch_store(se, stmts, env):
    """single store statement -> (target text, value term)"""
    real = [s for s in stmts if not (isinstance(s, ast.Expr) and isinstance(s.value, ast.Constant))]
    if len(real) == 1 and isinstance(real[0], ast.AugAssign):
        return src(real[0].target), se.ex(ast.BinOp(left=real[0].target, op=real[0].op, right=real[0].value), env)
    if len(real) != 1 or not isinstance(real[0], ast.Assign):
        raise AnalysisError('rule operation branch is not a single store: %s' % [util.stmt_key(s) for s in real])
    return src(real[0].targets[0]), se.ex(real[0].value, env)


def check_operations(ctx):
    prog = ctx.prog
    dt = symx.possym('dt')
    for cls, ode in (('GeneralAssignmentRule', False), ('GeneralODERule', True)):
        for meth, ev in (('rule_operation', 'evaluate'), ('rule_volume_operation', 'volume_evaluate')):
            dc, f = prog.resolve_method(cls, meth)
            ctx.functions.add('types:%s.%s' % (dc, meth))
            where = ctx.loc('types', f)
            problems = []
            if dc != cls:
                problems.append('%s does not override %s' % (cls, meth))
            else:
                a = [x.arg for x in f.args.args[1:]]
                rhs_args = a[:-1]
                R = symx.possym('RHS')
                # delegation to the sibling slot: plain -> volume with volume 1 is the same update; volume -> plain loses the volume
                deleg = [n.value for n in ast.walk(f) if isinstance(n, ast.Expr) and isinstance(n.value, ast.Call)
                         and src(n.value.func) in ('self.rule_operation', 'self.rule_volume_operation')]
                for c in deleg:
                    other_slot = src(c.func).split('.')[-1]
                    av = [src(x) for x in c.args]
                    if not (meth == 'rule_operation' and other_slot == 'rule_volume_operation' and len(av) == 5 and
                            [av[0], av[1], av[3], av[4]] == a and util.const_num(c.args[2]) == 1):
                        problems.append('delegates to %s(%s): the right-hand side is then evaluated %s' % (
                            other_slot, ', '.join(av),
                            "without the volume ('volume' reads 1 although a volume is in play)" if meth == 'rule_volume_operation' else 'by another slot'))
                for flag, arr, other in (() if deleg else ((1, a[1], a[0]), (0, a[0], a[1]))):
                    seen = []

                    def hook(n, env, se, seen=seen):
                        if isinstance(n.func, ast.Attribute) and src(n.func.value) == 'self.rhs':
                            seen.append((n.func.attr, [se.ex(x, env) for x in n.args]))
                            return R
                        return None
                    se = symx.SymExec(prog, cls, call=hook)
                    env0 = {'self.param_flag': sp.Integer(flag), a[-1]: dt}
                    names = {x: sp.Symbol('arg_' + x, positive=True) for x in a[2:-1]}
                    env0.update(names)
                    try:
                        final, _ = se.run_env(f, env0)
                    except symx.Unsupported as e:
                        raise AnalysisError('%s.%s: %s' % (cls, meth, e))
                    what = 'parameter' if flag else 'species'
                    key = [k_ for k_ in (final or {}) if k_.replace(' ', '') == '%s[self.dest_index]' % arr]
                    stray = [k_ for k_ in (final or {}) if k_.replace(' ', '') == '%s[self.dest_index]' % other]
                    if not key or stray:
                        problems.append('%s target: the value is stored into %s' % (what, (stray or ['nothing'])[0]))
                        continue
                    if len(seen) != 1:
                        problems.append('%s target: the right-hand side is evaluated %d times' % (what, len(seen)))
                        continue
                    attr_, args_ = seen[0]
                    want_args = [names.get(x) for x in rhs_args[2:]]
                    if attr_ == ev and args_[2:] == want_args:
                        pass
                    elif meth == 'rule_operation' and attr_ == 'volume_evaluate' and len(args_) == 4 and args_[2] == 1 and args_[3] == names.get(a[2]):
                        pass        # the volume-free slot may evaluate with volume 1
                    else:
                        problems.append("%s target: the right-hand side is evaluated as %s(%s), expected self.rhs.%s(%s)%s" % (
                            what, attr_, ', '.join(str(x) for x in args_[2:]), ev, ', '.join(rhs_args),
                            " - 'volume' reads 1 although a volume is in play" if meth == 'rule_volume_operation' and attr_ == 'evaluate' else ''))
                        continue
                    cur = symx.posfun(arr)(sp.Symbol('self.dest_index', real=True))
                    exp = cur + R * dt if ode else R
                    eq, wit = symx.equal(final[key[0]], exp)
                    if not eq:
                        problems.append('%s target: stores %s, expected %s' % (what, final[key[0]], exp))
            ctx.ob('R9.2-operation', '%s.%s' % (cls, meth), not problems, where,
                   ('dest = dest + rhs*dt' if ode else 'dest = rhs') + ' into params iff param_flag > 0 else into state', '; '.join(problems))
        # destination binding
        f = ctx.fn('types:%s.initialize' % cls)
        ifs = [s for s in f.body if isinstance(s, ast.If) and isinstance(s.test, ast.Compare) and len(s.test.ops) == 1
               and isinstance(s.test.ops[0], (ast.In, ast.NotIn)) and src(s.test.comparators[0]) == 'params2index']
        ok = False
        if ifs:
            i = ifs[-1]
            name = src(i.test.left)
            pos, neg = (i.body, i.orelse) if isinstance(i.test.ops[0], ast.In) else (i.orelse, i.body)      # either orientation of the test
            b1 = sorted(util.stmt_key(s) for s in pos)
            b2 = sorted(util.stmt_key(s) for s in neg)
            ok = b1 == sorted(['self.param_flag = 1', 'self.dest_index = params2index[%s]' % name]) and \
                b2 == sorted(['self.param_flag = 0', 'self.dest_index = species2index[%s]' % name])
        ctx.ob('R9.2-destination', cls, ok, ctx.loc('types', f),
               'the destination index and kind come from the dictionary the name is found in', '')
    # additive
    f = ctx.fn('types:AdditiveAssignmentRule.rule_operation')
    se = symx.SymExec(prog, 'AdditiveAssignmentRule')
    a = [x.arg for x in f.args.args[1:]]
    final, _ = se.run_env(f, {})
    key = '%s[self.dest_index]' % a[0]
    ok = False
    detail = ''
    if final is not None and key in final:
        val = final[key]
        detail = str(val)
        from .c01 import instantiate
        size = [x for x in val.atoms(sp.Function) if 'size' in str(x.func)]
        ok = True
        for n in (1, 3):
            tab = {s: sp.Integer(n) for s in size}
            got = instantiate(val, tab)
            exp = sum(symx.posfun(a[0])(symx.posfun('self.species_source_indices')(sp.Integer(i))) for i in range(n))
            if sp.simplify(got - exp) != 0:
                ok = False
                detail = '%d sources: %s' % (n, got)
    ctx.ob('R9.2-operation', 'AdditiveAssignmentRule.rule_operation', ok, ctx.loc('types', f),
           'state[dest] = sum of state[source_i] over all sources', detail)
    # the destination may be one of its own summands (A = A + B with frequency dt): every source must be read before the destination is
    # written, i.e. no store into the state array is followed (in execution order, loops included) by a read of the state array
    sarr = a[0]
    order = []
    def visit(stmts, in_loop):
        for st in stmts:
            if isinstance(st, (ast.For, ast.While)):
                visit(st.body, True)
                continue
            if isinstance(st, ast.If):
                visit(st.body, in_loop); visit(st.orelse, in_loop)
                continue
            tg = (st.targets if isinstance(st, ast.Assign) else [st.target]) if isinstance(st, (ast.Assign, ast.AugAssign)) else []
            wr = [t for t in tg if isinstance(t, ast.Subscript) and src(t.value) == sarr]
            rd = [n for n in ast.walk(st) if isinstance(n, ast.Subscript) and src(n.value) == sarr and isinstance(n.ctx, ast.Load)]
            if isinstance(st, ast.AugAssign) and wr:
                rd = rd + wr
            order.append((bool(rd), bool(wr), in_loop, st))
    visit(f.body, False)
    bad = None
    seen_write = False
    for rd, wr, in_loop, st in order:
        if rd and (seen_write or (wr and in_loop)):
            bad = st
            break
        if wr:
            seen_write = True
    ctx.ob('R9.2-operation', 'AdditiveAssignmentRule.read-before-write', bad is None and any(w for _, w, _, _ in order), ctx.loc('types', f),
           'all summands are read before the destination is written (the destination may be one of the summands)',
           '' if bad is None else 'the state array is read at line %d after (or while) the destination has been overwritten' % bad.lineno)


def check_rule_slots(ctx):
    """every concrete rule class executes a real operation in both the plain and the volume mode"""
    prog = ctx.prog
    subs = [c for c in prog.subclasses('Rule') if prog.classes[c].module == 'types']
    if len(subs) < 3:
        raise AnalysisError('anchor vanished: rule classes (%s)' % subs)
    for cls in sorted(subs):
        for op in ('rule_operation', 'rule_volume_operation'):
            dc, f = prog.resolve_method(cls, op)
            problems = []
            if f is None:
                problems.append('no %s' % op)
            else:
                ctx.functions.add('types:%s.%s' % (dc, op))
                body = [s for s in f.body if not (isinstance(s, ast.Expr) and isinstance(s.value, ast.Constant))]
                if body and isinstance(body[0], ast.Raise):
                    problems.append('%s executes %s.%s, which only raises %s' % (cls, dc, op, src(body[0].exc)[:40]))
                elif dc == 'Rule' and op == 'rule_volume_operation':
                    a = [x.arg for x in f.args.args[1:]]
                    want = 'self.rule_operation(%s)' % ', '.join([a[0], a[1], a[3], a[4]])
                    if [util.stmt_key(s) for s in body] != [want]:
                        problems.append('the inherited volume operation is %s, expected %s' % ([util.stmt_key(s) for s in body], want))
            ctx.ob('R9.2-operation-slot', '%s.%s' % (cls, op), not problems, ctx.loc('types', f) if f is not None else '',
                   'a %s executes a real operation in this mode (its own, or the plain one through the base default)' % cls, '; '.join(problems))


# ------------------------------------------------------------------------------ R9.3 / R9.4
EXPECT = {
    'SSASimulator': {'timepoint': 1, 'event': 0},
    'DelaySSASimulator': {'timepoint': 1, 'event': 0, 'delivery': 0},
    'VolumeSSASimulator': {'dtgrid': 1, 'event': 0, 'timepoint': 0},
    'DelayVolumeSSASimulator': {'dtgrid': 1, 'event': 0, 'delivery': 0, 'timepoint': 0},
    'Lineage': {'dtgrid': 1, 'event': 0, 'timepoint': 1},
}


def classify_arrival(sl, p):
    last_ct = None
    idx = -1
    for i, e in enumerate(p.events):
        if e.kind == 'stmt' and isinstance(e.node, ast.Assign) and src(e.node.targets[0]) == 'current_time':
            last_ct, idx = e.node, i
    if last_ct is None:
        return 'none'
    # follow plain names back along this path to the expression they were last given (`proposed_time = next_timepoint`,
    # `next_timepoint = c_timepoints[current_index]`)
    val, at = last_ct.value, idx
    for _ in range(5):
        if not isinstance(val, ast.Name):
            break
        prev = None
        for k_, e in enumerate(p.events[:at]):
            if e.kind == 'stmt' and isinstance(e.node, ast.Assign) and src(e.node.targets[0]) == val.id:
                prev = (e.node.value, k_)
        if prev is None:
            break
        val, at = prev
    x = src(val).replace(' ', '')
    if x in ('c_timepoints[current_index]', 'timepoints[current_index]', 'final_time'):
        return 'timepoint'
    if 'exponential_rv' in x:
        return 'event'
    if x == 'current_time+delta_t':
        return 'lambda0-step'
    x = src(last_ct.value).replace(' ', '')
    if x == 'proposed_time':
        return 'unknown:' + src(val).replace(' ', '')
    if isinstance(last_ct.value, ast.Name):
        var = last_ct.value.id
        for n in ast.walk(sl.loop):
            if isinstance(n, ast.AugAssign) and src(n.target) == var and isinstance(n.op, ast.Add) and src(n.value) in ('delta_t', 'dt'):
                return 'dtgrid'
        for n in ast.walk(sl.loop):
            if isinstance(n, ast.Assign) and src(n.targets[0]) == var and 'get_next_queue_time' in src(n.value):
                return 'delivery'
    return 'unknown:' + x


def check_loop(ctx, key):
    sl = simloop.SimLoop(ctx, key)
    lineage = key == 'Lineage'
    en = paths.Enumerator(assume_nonneg=('Lambda',), snapshot=False,
                          for_nonempty=('range(num_species)', 'range(num_reactions)', 'range(self.num_species)'))
    st = paths.State()
    pths = en.run(sl.loop.body, st, depth=1)
    ctx.paths += len(pths)
    rules_call = 'apply_repeated_volume_rules' if (lineage or 'Volume' in key) else 'apply_repeated_rules'
    v3, v4 = [], []
    classes = set()
    for p in pths:
        ev = [e for e in p.events if e.kind == 'stmt']
        if not ev:
            continue
        first = ev[0].node
        calls = paths.stmt_calls(first, rules_call)
        if not calls:
            v3.append((p, 'the first effect of the iteration is %s, not %s' % (util.stmt_key(first), rules_call)))
        else:
            args = [src(util.strip_cast(a)).replace(' ', '') for a in calls[0].args]
            if lineage:
                want = ['__addr__(self.c_current_state[0])', 'current_volume', 'current_time', 'rule_step']
            elif 'Volume' in key:
                want = ['c_current_state.data', 'current_volume', 'current_time', 'rule_step']
            else:
                want = ['c_current_state.data', 'current_time', 'rule_step']
            if args != want:
                v3.append((p, 'rules applied with %s, expected %s' % (args, want)))
        i_rules = 0
        i_prop = paths.index_of(p, lambda e: e.kind == 'stmt' and any(paths.stmt_calls(e.node, s) for s in
                                ('compute_stochastic_propensities', 'compute_stochastic_volume_propensities', 'compute_lineage_propensities',
                                 'compute_propensities', 'compute_volume_propensities')))
        n_rules = sum(1 for e in ev if paths.stmt_calls(e.node, 'apply_repeated_rules') or paths.stmt_calls(e.node, 'apply_repeated_volume_rules'))
        if n_rules != 1:
            v3.append((p, 'rules applied %d times in one iteration' % n_rules))
        if p.exit != 'fall':
            continue
        cl = classify_arrival(sl, p)
        classes.add(cl)
        rs = p.state.env.get('rule_step', paths.TOP)
        exp = EXPECT[key].get(cl)
        if cl.startswith('unknown') or cl == 'none':
            v4.append((p, 'cannot tell what current_time was set to (%s)' % cl))
        elif cl == 'lambda0-step':
            continue
        elif exp is None:
            v4.append((p, 'unexpected kind of step: %s' % cl))
        elif rs is paths.TOP or int(rs) != exp:
            v4.append((p, 'rule_step = %s at the back edge after a %s step (expected %d)' % (rs, cl, exp)))

    def fmt(lst):
        return '; '.join('%s on path [%s]' % (m, paths.describe(p, 7)) for p, m in lst[:2])
    ctx.ob('R9.3-rules-first', key, not v3, sl.where,
           'each iteration applies the repeated rules once, first, to the current state/time with rule_step, before the propensities', fmt(v3))
    grid = 'the dt queue' if ('Volume' in key or lineage) else 'the requested time points'
    ctx.ob('R9.4-rule-step', key, not v4 and len(classes) >= 2, sl.where,
           'rule_step is 1 exactly after an arrival on %s and 0 after a reaction or delay delivery (one dt-rule step per elapsed step)' % grid,
           fmt(v4) or 'step kinds seen: %s' % sorted(classes))
    init = sl.prelude_assign('rule_step')
    ctx.ob('R9.4-rule-step-initial', key, init is not None and util.const_num(init) == 1, sl.where, 'rule_step starts at 1', '')


def check_iface_apply(ctx):
    for cls, meth, op in (('ModelCSimInterface', 'apply_repeated_rules', 'execute_rule'),
                          ('ModelCSimInterface', 'apply_repeated_volume_rules', 'execute_volume_rule')):
        f = ctx.fn('simulator:%s.%s' % (cls, meth))
        a = [x.arg for x in f.args.args[1:]]
        loops = [s for s in f.body if isinstance(s, ast.For)]
        problems = []
        if len(loops) != 1 or src(loops[0].iter).replace(' ', '') != 'range(self.c_repeat_rules[0].size())':
            problems.append('not a loop over all registered rules')
        else:
            lp = loops[0]
            v = src(lp.target)
            body = [s for s in lp.body]
            calls = [c for c in ast.walk(lp) if isinstance(c, ast.Call) and isinstance(c.func, ast.Attribute) and c.func.attr in ('execute_rule', 'execute_volume_rule')]
            if len(calls) != 1 or calls[0].func.attr != op:
                problems.append('calls %s, expected %s' % ([c.func.attr for c in calls], op))
            else:
                c = calls[0]
                recv = src(util.strip_cast(c.func.value))
                want = [a[0], 'self.c_param_values'] + a[1:-1] + ['self.dt', a[-1]]
                got = [src(x) for x in c.args]
                if recv != 'self.c_repeat_rules[0][%s]' % v:
                    problems.append('receiver %s' % recv)
                if got != want:
                    problems.append('arguments %s, expected %s' % (got, want))
            if any(isinstance(x, (ast.Break, ast.Continue, ast.Return)) for x in ast.walk(lp)):
                problems.append('loop can skip rules')
        ctx.ob('R9.3-interface-apply', '%s.%s' % (cls, meth), not problems, ctx.loc('simulator', f),
               'all rules 0..n-1 are executed in index order on the shared parameter vector with the interface dt', '; '.join(problems))


# ------------------------------------------------------------------------------ R9.5
def check_deterministic(ctx):
    f = ctx.fn('simulator:rhs_global')
    a = [x.arg for x in f.args.args]
    en = paths.Enumerator()
    ps = en.run(f.body, paths.State())
    problems = []
    for p in ps:
        i_r = paths.index_of(p, lambda e: e.kind == 'stmt' and paths.stmt_calls(e.node, 'apply_repeated_rules'))
        i_d = paths.index_of(p, lambda e: e.kind == 'stmt' and paths.stmt_calls(e.node, 'calculate_deterministic_derivative'))
        if i_d < 0 or i_r < 0 or i_r > i_d:
            problems.append('a path evaluates the derivative without applying the rules first')
            continue
        c = paths.stmt_calls(p.events[i_r].node, 'apply_repeated_rules')[0]
        args = [src(util.strip_cast(x)).replace(' ', '') for x in c.args]
        if args[:2] != ['%s.data' % a[0], a[1]]:
            problems.append('rules applied to %s' % args)
    ctx.ob('R9.5-deterministic', 'rhs_global', not problems, ctx.loc('simulator', f),
           'the right-hand side applies the rules to (state, t) before evaluating the derivative', '; '.join(sorted(set(problems))))
    f = ctx.fn('simulator:DeterministicSimulator._helper_simulate')
    loops = [n for n in ast.walk(f) if isinstance(n, ast.For) and paths.stmt_calls(n, 'apply_repeated_rules')]
    problems = []
    if len(loops) != 1:
        problems.append('row re-application loop not found')
    else:
        lp = loops[0]
        v = src(lp.target)
        it = src(lp.iter).replace(' ', '')
        if it not in ('range(timepoints.shape[0])', 'range(len(timepoints))', 'range(results.shape[0])'):
            problems.append('rows re-ruled over %s, not over every time point' % it)
        c = paths.stmt_calls(lp, 'apply_repeated_rules')[0]
        args = [src(x).replace(' ', '') for x in c.args]
        if args[0] not in ('__addr__(results[%s,0])' % v,) or args[1] != 'timepoints[%s]' % v or args[2] not in ('True', '1'):
            problems.append('rows re-ruled with arguments %s' % args)
        # executed exactly when the integration succeeded and the model has rules
        conds = util.guards_of(lp, f)
        if conds != {'success', '0<sim.get_number_of_rules()'}:
            problems.append('re-application guarded by %s' % sorted(conds))
    all_calls = [c_ for c_ in ast.walk(f) if isinstance(c_, ast.Call) and isinstance(c_.func, ast.Attribute)
                 and c_.func.attr in ('apply_repeated_rules', 'apply_repeated_volume_rules')]
    if len(loops) == 1 and any(not any(c_ is x for x in ast.walk(loops[0])) for c_ in all_calls):
        problems.append('rules are also applied outside the row loop (a row would get them twice)')
    ctx.ob('R9.5-deterministic', 'rows', not problems, ctx.loc('simulator', f),
           'after a successful integration every output row i is re-ruled at timepoints[i] when the model has rules - once', '; '.join(problems))
    # the integrator's starting state is the interface's initial state as it is: odeint copies it into the first row, and that row gets
    # the rules from the row loop
    problems = []
    ode = [c_ for c_ in ast.walk(f) if isinstance(c_, ast.Call) and src(c_.func).split('.')[-1] == 'odeint']
    if len(ode) != 1 or len(ode[0].args) < 2 or not isinstance(ode[0].args[1], ast.Name):
        raise AnalysisError('_helper_simulate: the odeint call was not found')
    x0 = ode[0].args[1].id
    defs = util.single_defs(f)
    d0 = defs.get(x0)
    if d0 is None or src(d0).replace(' ', '') != 'sim.get_initial_state().copy()':
        problems.append('%s is %s' % (x0, src(d0) if d0 is not None else 'assigned more than once'))
    for n_ in ast.walk(f):
        if isinstance(n_, ast.Call) and n_ is not ode[0] and any(isinstance(x, ast.Name) and x.id == x0 for a_ in list(n_.args) + [k_.value for k_ in n_.keywords] for x in ast.walk(a_)):
            if src(n_.func) not in ('len', 'print', 'str', 'np.shape', 'np.isnan', 'np.isfinite'):
                problems.append('%s is handed to %s before the integration' % (x0, src(n_.func)))
        if isinstance(n_, (ast.Assign, ast.AugAssign)):
            for t_ in (n_.targets if isinstance(n_, ast.Assign) else [n_.target]):
                if isinstance(t_, ast.Subscript) and isinstance(t_.value, ast.Name) and t_.value.id == x0:
                    problems.append('%s is written: %s' % (x0, util.stmt_key(n_)[:60]))
    ctx.ob('R9.5-deterministic', 'initial-state', not problems, ctx.loc('simulator', f),
           "the state the integration starts from is a copy of the interface's initial state, untouched (its row gets the rules with all the others)",
           '; '.join(sorted(set(problems))))


# ------------------------------------------------------------------------------ R9.6
def pushes(prog, cls, meth, vec, seen=None):
    """number of loops that push into `vec` when cls.meth runs (following super() calls); None if cleared first is required"""
    dc, f = prog.resolve_method(cls, meth)
    if f is None:
        return 0, False
    n = 0
    cleared = False
    for s in f.body:
        t = util.stmt_key(s)
        if t == '%s.clear()' % vec:
            cleared = True
            n = 0
        if isinstance(s, ast.Expr) and isinstance(s.value, ast.Call) and src(s.value.func) in ('super().%s' % meth, 'super(%s, self).%s' % (dc, meth)):
            bases = prog.classes[dc].bases
            if bases:
                k, c = pushes(prog, bases[0], meth, vec)
                n += k
                cleared = cleared or c
        if isinstance(s, ast.For):
            for c in ast.walk(s):
                if isinstance(c, ast.Call) and src(c.func) == '%s.push_back' % vec:
                    n += 1
    return n, cleared


def check_registration(ctx, thorough_only=False):
    prog = ctx.prog
    for cls, mod in (('Model', 'types'), ('LineageModel', 'lineage')):
        dc, f = prog.resolve_method(cls, '_create_vectors')
        ctx.functions.add('%s:%s._create_vectors' % (prog.classes[dc].module, dc))
        n, cleared = pushes(prog, cls, '_create_vectors', 'self.c_repeat_rules')
        ctx.ob('R9.6-registered-once', cls, n == 1 and cleared, ctx.loc(prog.classes[dc].module, f),
               'each initialisation clears the rule vector and fills it from repeat_rules by exactly one loop',
               '%d loops push into c_repeat_rules, cleared first: %s' % (n, cleared))


def check_declaration_order(ctx):
    """rules are applied in declaration order: create_rule appends to repeat_rules, _create_vectors copies that list in order into the
    C vector, and the interface walks the vector from index 0 upwards"""
    prog = ctx.prog
    dc, f = prog.resolve_method('Model', '_create_vectors')
    problems = []
    loops = [s_ for s_ in f.body if isinstance(s_, ast.For) and any(isinstance(c, ast.Call) and src(c.func) == 'self.c_repeat_rules.push_back' for c in ast.walk(s_))]
    if len(loops) != 1:
        problems.append('%d loops fill c_repeat_rules' % len(loops))
    else:
        lp = loops[0]
        it = src(lp.iter).replace(' ', '')
        tv = src(lp.target)
        pushed = [c for c in ast.walk(lp) if isinstance(c, ast.Call) and src(c.func) == 'self.c_repeat_rules.push_back'][0]
        arg = src(util.strip_cast(pushed.args[0])).replace(' ', '') if pushed.args else None
        if it == 'self.repeat_rules' and arg == tv:
            pass
        elif it in ('range(len(self.repeat_rules))',) and arg == 'self.repeat_rules[%s]' % tv:
            pass
        else:
            problems.append('the rule vector is filled from `%s` (pushing %s): not the declaration list in its own order' % (src(lp.iter), arg))
        if any(isinstance(x, (ast.If, ast.Continue, ast.Break)) for x in ast.walk(lp)):
            problems.append('some rules are skipped while the vector is filled')
    g = ctx.fn('types:Model.create_rule')
    apps = [c for c in ast.walk(g) if isinstance(c, ast.Call) and src(c.func) in ('self.repeat_rules.append', 'self.repeat_rules.insert')]
    if len(apps) != 1 or src(apps[0].func) != 'self.repeat_rules.append':
        problems.append('create_rule registers the rule object by %s' % [src(c.func) for c in apps])
    ctx.ob('R9.6-declaration-order', 'Model', not problems, ctx.loc(prog.classes[dc].module, f),
           'rule objects are appended on declaration and copied into the C vector in that order, none skipped', '; '.join(problems))
    for cls, meths in (('ModelCSimInterface', ('apply_repeated_rules', 'apply_repeated_volume_rules')),):
        for m_ in meths:
            dc2, h = prog.resolve_method(cls, m_)
            if h is None:
                raise AnalysisError('anchor vanished: %s.%s' % (cls, m_))
            lps = [s_ for s_ in ast.walk(h) if isinstance(s_, ast.For)]
            ok = len(lps) == 1 and src(lps[0].iter).replace(' ', '') in ('range(self.num_rules)', 'range(self.c_repeat_rules.size())',
                                                                       'range(self.c_repeat_rules[0].size())', 'range(0,self.num_rules)')
            if ok:
                tv = src(lps[0].target)
                idx = [n_ for n_ in ast.walk(lps[0]) if isinstance(n_, ast.Subscript) and 'c_repeat_rules' in src(n_.value)
                       and src(n_.slice).replace(' ', '') != '0']
                ok = bool(idx) and all(src(n_.slice).replace(' ', '') == tv for n_ in idx)
            ctx.ob('R9.6-declaration-order', '%s.%s' % (cls, m_), ok, ctx.loc(prog.classes[dc2].module, h),
                   'the interface applies the rules by walking the vector from the first to the last index', '')


# ------------------------------------------------------------------------------ R9.7
def check_dt(ctx):
    f = ctx.fn('simulator:py_simulate_model')
    calls = util.calls_in(f, suffix='py_set_dt')
    dts = [n for n in ast.walk(f) if isinstance(n, ast.Assign) and src(n.targets[0]) == 'dt']
    ok = len(calls) == 1 and src(calls[0]) == 'Interface.py_set_dt(dt)' and len(dts) == 1 and \
        src(dts[0].value).replace(' ', '') == 'timepoints[1]-timepoints[0]'
    ctx.ob('R9.7-grid-dt', 'py_simulate_model', ok, ctx.loc('simulator', f),
           'the interface dt is set to the grid step before simulating on a uniform grid', '')
    f = ctx.fn('simulator:CSimInterface.py_set_dt')
    ok = any(util.stmt_key(s) in ('self.set_dt(dt)', 'self.dt = dt') for s in f.body)
    ctx.ob('R9.7-grid-dt', 'CSimInterface.py_set_dt', ok, ctx.loc('simulator', f), 'py_set_dt stores the step', '')
    # lineage: the single-cell loop steps with delta_t from the grid; the interface dt used by the rules must be that step
    sl = simloop.SimLoop(ctx, 'Lineage')
    sets = [c for c in ast.walk(sl.f) if isinstance(c, ast.Call) and src(c.func) in ('self.interface.set_dt', 'self.interface.py_set_dt')]
    ok = bool(sets) and all(src(c.args[0]) == 'delta_t' for c in sets)
    ctx.ob('R9.7-grid-dt', 'LineageSSASimulator.SimulateSingleCell', ok, sl.where,
           'the lineage single-cell loop gives the interface (whose dt the repeated rules use) its grid step delta_t',
           'set_dt calls: %s' % [src(c) for c in sets])


def check_constructor_rules(ctx):
    """The rule tuples given to a model's constructor reach create_rule with their type, attributes and frequency: the constructors are
    evaluated (templates.StrExec) on a sample rule list - 2-tuples and 3-tuples whose attributes and frequencies are named holes."""
    from ..templates import StrExec, Hole, UNKNOWN
    sample = [['assignment', Hole('A0')], ['additive', Hole('A1'), Hole('F1')], ['LinearVolume', Hole('A2')], ['ode', Hole('A3'), Hole('F3')],
              ['division', Hole('A4'), Hole('F4')], ['assignment', Hole('A5'), Hole('F5')]]
    lineage_words = ('Volume', 'volume', 'Death', 'death', 'Division', 'division')
    plain = [r for r in sample if not any(w in r[0] for w in lineage_words)]

    def run(f, on_call):
        names = [a.arg for a in f.args.args[1:]]
        dfl = f.args.defaults
        env = {}
        ex = StrExec(env, tracked=set(), call_hook=on_call)
        for a, dv in zip(f.args.args[len(f.args.args) - len(dfl):], dfl):
            env[a.arg] = ex.ev(dv)
        env['rules'] = [list(r) for r in sample]
        env['initialize_model'] = False
        env['input_printout'] = False
        ex.env = env
        ex.frozen = set(env)
        ex.run(f.body)
        return ex

    # Model.__init__ -> create_rule
    f = ctx.fn('types:Model.__init__')
    dc, cr = ctx.prog.resolve_method('Model', 'create_rule')
    cr_params = [a.arg for a in cr.args.args[1:]]
    default_freq = None
    for a, dv in zip(cr.args.args[len(cr.args.args) - len(cr.args.defaults):], cr.args.defaults):
        if a.arg == 'rule_frequency' and isinstance(dv, ast.Constant):
            default_freq = dv.value
    got = []

    def hook(n, ex):
        if isinstance(n.func, ast.Attribute) and n.func.attr == 'create_rule' and src(n.func.value) == 'self':
            vals = dict(zip(cr_params, [ex.ev(a) for a in n.args]))
            for kw in n.keywords:
                if kw.arg is not None:
                    vals[kw.arg] = ex.ev(kw.value)
            got.append([vals.get('rule_type', UNKNOWN), vals.get('rule_attributes', UNKNOWN), vals.get('rule_frequency', default_freq)])
        return None
    ex = run(f, hook)
    want = [[r[0], r[1], r[2] if len(r) == 3 else default_freq] for r in sample]
    ok = not ex.aborted and got == want and default_freq == 'repeated'
    ctx.ob('R9.8-constructor-rules', 'Model.__init__', ok, ctx.loc('types', f),
           "every rule tuple of the constructor reaches create_rule in order with its type, attributes and frequency ('repeated' when none is given)",
           '' if ok else 'for %r create_rule is called with %r%s' % (sample, got, ' (%s)' % ex.aborted if ex.aborted else ''))
    # LineageModel.__init__ -> Model.__init__(rules = ...)
    f = ctx.fn('lineage:LineageModel.__init__')
    fwd = []

    def hook2(n, ex):
        if isinstance(n.func, ast.Attribute) and n.func.attr == '__init__' and isinstance(n.func.value, ast.Call) and src(n.func.value.func) == 'super':
            for kw in n.keywords:
                if kw.arg == 'rules':
                    fwd.append(ex.ev(kw.value))
        return None
    ex = run(f, hook2)
    ok = not ex.aborted and len(fwd) == 1 and fwd[0] == plain
    ctx.ob('R9.8-constructor-rules', 'LineageModel.__init__', ok, ctx.loc('lineage', f),
           'the rules that are not lineage rules are handed to the Model constructor unchanged (type, attributes and frequency), in order',
           '' if ok else 'for %r the Model constructor gets rules = %r%s' % (sample, fwd, ' (%s)' % ex.aborted if ex.aborted else ''))


def check(ctx):
    prog = ctx.prog
    for m in ('types', 'types.pxd', 'simulator', 'simulator.pxd', 'lineage', 'lineage.pxd'):
        prog.mod(m)
    check_constructor_rules(ctx)
    check_predicate(ctx)
    check_operations(ctx)
    check_rule_slots(ctx)
    for key in list(simloop.SIMULATORS) + ['Lineage']:
        check_loop(ctx, key)
    check_iface_apply(ctx)
    check_deterministic(ctx)
    check_registration(ctx)
    check_declaration_order(ctx)
    check_dt(ctx)
    # "reaction rates are computed from the rule-updated species and parameters": every iteration re-evaluates the propensities from the
    # current (rule-updated) state before the next event is drawn, with nothing written in between (C05 R5.2-order / R5.2-choice) - re-emitted
    from ..core import SubCtx
    from . import c05
    prog.mod('random')
    sub = SubCtx(ctx)
    for key in simloop.SIMULATORS:
        c05.check_loop(sub, key)
    for rule, key, ok, where, what, detail in sub.got:
        if rule in ('R5.2-order', 'R5.2-choice', 'R5.2-lambda'):
            ctx.ob('R9.3-rates-after-rules', '%s/%s' % (rule, key), ok, where, what, detail)
    # a row satisfies a rule only if nothing edits the rule's target between the rule and the recording: the interface methods that are
    # handed the state to read it (propensity evaluation, safe-mode count check) never store into it (C06 R6.1-state-readers) - re-emitted
    from . import c06
    sub = SubCtx(ctx)
    c06.check_state_readers(sub)
    for rule, key, ok, where, what, detail in sub.got:
        if rule == 'R6.1-state-readers':
            ctx.ob('R9.3-rates-after-rules', '%s/%s' % (rule, key), ok, where, what, detail)
    # the lineage loop has its own propensity slot: same demand
    sl = simloop.SimLoop(ctx, 'Lineage')
    bad = []
    pths = sl.iteration_paths()
    ctx.paths += len(pths)
    for p in pths:
        i_rules = paths.index_of(p, lambda e: e.kind == 'stmt' and paths.stmt_calls(e.node, 'apply_repeated_volume_rules'))
        i_comp = paths.index_of(p, lambda e: e.kind == 'stmt' and paths.stmt_calls(e.node, 'compute_lineage_propensities'))
        i_lam = paths.index_of(p, lambda e: e.kind == 'stmt' and isinstance(e.node, ast.Assign) and src(e.node.targets[0]) == 'Lambda')
        i_use = paths.index_of(p, lambda e: e.kind == 'stmt' and (paths.stmt_calls(e.node, 'sample_discrete') or paths.stmt_calls(e.node, 'exponential_rv')))
        if p.exit == 'break' and i_comp < 0 and i_use < 0 and i_rules >= 0:
            continue        # a death / division rule ended the cell before anything was drawn
        if not (0 <= i_rules < i_comp < i_lam) or (0 <= i_use < i_lam):
            bad.append('rules %d, propensities %d, Lambda %d, first draw %d on path [%s]' % (i_rules, i_comp, i_lam, i_use, paths.describe(p, 5)))
        elif i_comp >= 0:
            c = paths.stmt_calls(p.events[i_comp].node, 'compute_lineage_propensities')[0]
            a = [src(util.strip_cast(x)).replace(' ', '') for x in c.args]
            if a != ['__addr__(self.c_current_state[0])', '__addr__(self.c_propensity[0])', 'current_volume', 'current_time']:
                bad.append('propensities computed with %s' % a)
    ctx.ob('R9.3-rates-after-rules', 'Lineage', not bad and pths, sl.where,
           'every iteration of the lineage loop applies the rules, then recomputes all propensities from the current state, volume and time, then sums them, before anything is drawn',
           '; '.join(sorted(set(bad))[:2]))
    # rules with frequency dt (and ODE rules) fire once per grid step: in the volume simulators the rule step is the pass on which the
    # volume clock wins, so the pairing of that clock with the simulation time (C11 R11.2-pairing, R11.2-volume-clock) is what makes
    # them fire every dt - re-emitted here
    from . import c11
    sub = SubCtx(ctx)
    for key_ in ('VolumeSSASimulator', 'DelayVolumeSSASimulator'):
        c11.check_loop(sub, key_)
    c11.check_volume_clock(sub)
    for rule, key, ok, where, what, detail in sub.got:
        if rule in ('R11.2-pairing', 'R11.2-volume-clock'):
            ctx.ob('R9.4-rule-step', 'C11/%s/%s' % (rule, key), ok, where, what, detail)
    ctx.floor('R9.3-rates-after-rules', 13)
    ctx.floor('R9.1-firing-predicate', 2)
    ctx.floor('R9.2-operation', 5)
    ctx.floor('R9.3-rules-first', 5)
    ctx.floor('R9.4-rule-step', 5)
