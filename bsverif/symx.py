"""A2/A3: extraction of the expression a function returns, as a sympy term over named leaves,
and comparison of two such terms.

Extraction is syntax-directed: straight-line definitions are substituted into their uses,
`if/else` gives a finite case split, the accumulate-loop idioms the repository uses
(`for i in range(n): acc op= E(i)`) become indexed Sum/Product terms.  Anything else inside an
analysed function is an AnalysisError (never silently skipped).
"""
import ast
import random as _random

import sympy as sp
from sympy.core.function import AppliedUndef

from .front import AnalysisError, src


ITER = sp.Function('__iterate')      # ITER(step, placeholder, start, var, lo, hi): see SymExec._recurrence


def expand_iter(e, inst=lambda x: x):
    """Value of an ITER node whose bounds are concrete integers (after `inst`, the caller's instantiation of bounds and operands)."""
    step, ph, start, var, lo, hi = e.args
    lo, hi = inst(sp.sympify(lo)), inst(sp.sympify(hi))
    if not (lo.is_Integer and hi.is_Integer):
        return None
    acc = inst(start)
    for v in range(int(lo), int(hi) + 1):
        acc = inst(step.xreplace({ph: acc, var: sp.Integer(v)}))
    return acc


class Unsupported(AnalysisError):
    pass


def F(name, **kw):
    return sp.Function(name, **kw)


_POSF = {}


def posfun(name):
    """Undefined function with positive real values (states, parameters, volume ...)."""
    if name not in _POSF:
        _POSF[name] = sp.Function(name, positive=True)
    return _POSF[name]


def possym(name):
    return sp.Symbol(name, positive=True)


def intsym(name):
    return sp.Symbol(name, integer=True, nonnegative=True)


_MATH1 = {
    'exp': sp.exp, 'log': sp.log, 'sqrt': sp.sqrt, 'cos': sp.cos, 'sin': sp.sin, 'fabs': sp.Abs,
    'abs': sp.Abs, 'floor': sp.floor, 'ceil': sp.ceiling, 'tan': sp.tan,
}


class Case:
    def __init__(self, conds, value, node=None):
        self.conds = conds      # list of (sympy relational or text, bool)
        self.value = value
        self.node = node

    def cond_text(self):
        return ' and '.join(('%s' if t else 'not(%s)') % c for c, t in self.conds) or 'always'


def split_piecewise(cases, limit=64):
    """Cases whose value contains a Piecewise (an inlined callee with branches) are split into one case per branch, so that a branch
    taken only on a thin set (`n == 1`) is compared on that set instead of being averaged away by random sampling."""
    out = []
    work = list(cases)
    while work:
        c = work.pop(0)
        pws = sorted(c.value.atoms(sp.Piecewise), key=lambda x: len(str(x))) if isinstance(c.value, sp.Basic) else []
        if not pws or len(out) + len(work) > limit:
            out.append(c)
            continue
        pw = pws[0]
        earlier = []
        for expr, cond in pw.args:
            conds = list(c.conds) + [(e_, False) for e_ in earlier]
            if cond != sp.true:
                conds.append((cond, True))
                earlier.append(cond)
            work.append(Case(conds, c.value.xreplace({pw: expr}), c.node))
    return out


class SymExec:
    """Symbolic reader of one function body.

    leaf(node) -> sympy term or None lets a rule give names to leaves (e.g. `state[self.s1_index]`);
    `call(node, args)` lets a rule interpret calls; the defaults keep everything opaque but
    structurally comparable.
    """

    def __init__(self, prog=None, cls=None, leaf=None, call=None, max_inline=4, fresh_calls=(), boundary=True):
        self.boundary = boundary    # keep comparisons that are decided only by the positivity of a state/parameter value (see x_Compare)
        self.prog = prog
        self.cls = cls
        self.leaf = leaf
        self.call_hook = call
        self.max_inline = max_inline
        self.fresh_calls = tuple(fresh_calls)   # call-name suffixes that yield a fresh symbol per occurrence
        self.fresh_count = {}
        self.inlined = []

    # ---------------------------------------------------------------- expressions
    def ex(self, n, env):
        if self.leaf is not None:
            r = self.leaf(n, env, self)
            if r is not None:
                return r
        m = getattr(self, 'x_' + type(n).__name__, None)
        if m is None:
            raise Unsupported('unsupported expression %s at line %s: %s' % (type(n).__name__, getattr(n, 'lineno', '?'), src(n)))
        return m(n, env)

    def x_Constant(self, n, env):
        v = n.value
        if isinstance(v, bool):
            return sp.true if v else sp.false
        if isinstance(v, int):
            return sp.Integer(v)
        if isinstance(v, float):
            import math
            if abs(v - math.pi) < 1e-12:
                return sp.pi
            return sp.nsimplify(v, rational=True) if v == v and abs(v) != float('inf') else sp.Float(v)
        if v is None:
            return sp.Symbol('None')
        if isinstance(v, str):
            return sp.Symbol('"%s"' % v)
        raise Unsupported('constant %r' % (v,))

    def x_Name(self, n, env):
        if n.id in env:
            return env[n.id]
        return sp.Symbol(n.id, real=True)

    def x_Attribute(self, n, env):
        t = src(n)
        if t in env:
            return env[t]
        if t in ('np.pi', 'math.pi', 'numpy.pi'):
            return sp.pi
        if t in ('np.inf', 'math.inf', 'numpy.inf'):
            return sp.oo
        if t in ('np.nan', 'numpy.nan'):
            return sp.nan
        if isinstance(n.value, ast.Name) and n.value.id == 'self':
            return sp.Symbol('self.' + n.attr, real=True)
        base = self.ex(n.value, env)
        return F('.' + n.attr)(base)

    def x_Subscript(self, n, env):
        t = src(n)
        if t in env:
            return env[t]
        base = n.value
        name = src(base)
        if isinstance(n.slice, ast.Tuple):
            idx = [self.ex(e, env) for e in n.slice.elts]
        elif isinstance(n.slice, ast.Slice):
            raise Unsupported('slice %s' % t)
        else:
            idx = [self.ex(n.slice, env)]
        if name in env and not isinstance(env[name], sp.Basic):
            raise Unsupported('subscript of non-symbolic %s' % name)
        if name in env and isinstance(env[name], sp.Basic) and not isinstance(env[name], sp.Symbol):
            return F('getitem')(env[name], *idx)
        return posfun(name)(*idx)

    def x_UnaryOp(self, n, env):
        v = self.ex(n.operand, env)
        if isinstance(n.op, ast.USub):
            return -v
        if isinstance(n.op, ast.UAdd):
            return v
        if isinstance(n.op, ast.Not):
            return sp.Not(self._bool(v))
        raise Unsupported('unary op')

    def x_BinOp(self, n, env):
        a, b = self.ex(n.left, env), self.ex(n.right, env)
        op = type(n.op)
        if op is ast.Add:
            return a + b
        if op is ast.Sub:
            return a - b
        if op is ast.Mult:
            return a * b
        if op is ast.Div:
            return a / b
        if op is ast.Pow:
            return sp.Pow(a, b)
        if op is ast.Mod:
            return sp.Mod(a, b)
        if op is ast.FloorDiv:
            return sp.floor(a / b)
        raise Unsupported('binary op %s' % op.__name__)

    def _bool(self, v):
        if isinstance(v, (sp.logic.boolalg.Boolean, sp.logic.boolalg.BooleanAtom)) or v in (sp.true, sp.false):
            return v
        return sp.Ne(v, 0)

    def x_Compare(self, n, env):
        ops = {ast.Eq: sp.Eq, ast.NotEq: sp.Ne, ast.Lt: sp.Lt, ast.LtE: sp.Le, ast.Gt: sp.Gt, ast.GtE: sp.Ge}
        left = self.ex(n.left, env)
        terms = []
        for o, c in zip(n.ops, n.comparators):
            r = self.ex(c, env)
            if type(o) not in ops:
                terms.append(F('cmp_' + type(o).__name__)(left, r))
                left = r
                continue
            try:
                rel = ops[type(o)](left, r)
                if self.boundary and rel in (sp.true, sp.false):
                    # values are non-negative, the symbols standing for them are positive: a test that comes out differently when one
                    # of them is 0 is kept unevaluated, so that the branch taken only on the boundary is not lost
                    for a in sorted((left.atoms(sp.Function) | r.atoms(sp.Function)), key=str):
                        if getattr(a, 'is_positive', None):
                            try:
                                at0 = ops[type(o)](left.xreplace({a: sp.Integer(0)}), r.xreplace({a: sp.Integer(0)}))
                            except Exception:
                                continue
                            if at0 in (sp.true, sp.false) and at0 != rel:
                                rel = ops[type(o)](left, r, evaluate=False)
                                break
                terms.append(rel)
            except TypeError:
                terms.append(F('cmp_' + type(o).__name__)(left, r))
            left = r
        if len(terms) == 1:
            return terms[0]
        return sp.And(*[self._bool(t) for t in terms])

    def x_BoolOp(self, n, env):
        vals = [self._bool(self.ex(v, env)) for v in n.values]
        return sp.And(*vals) if isinstance(n.op, ast.And) else sp.Or(*vals)

    def x_IfExp(self, n, env):
        c = self._bool(self.ex(n.test, env))
        return sp.Piecewise((self.ex(n.body, env), c), (self.ex(n.orelse, env), True))

    def x_Tuple(self, n, env):
        return sp.Tuple(*[self.ex(e, env) for e in n.elts])

    x_List = x_Tuple

    def x_Call(self, n, env):
        fn = n.func
        name = src(fn)
        args = n.args
        if self.call_hook is not None:
            r = self.call_hook(n, env, self)
            if r is not None:
                return r
        if name == '__cast__':
            return self.ex(args[1], env)
        if name == '__addr__':
            return F('addr')(self.ex(args[0], env))
        last = name.split('.')[-1]
        if name.split('.')[0] in ('np', 'numpy', 'math', 'libc') or '.' not in name:
            if last in _MATH1 and len(args) == 1:
                return _MATH1[last](self.ex(args[0], env))
            if last in ('max', 'fmax', 'maximum') and len(args) >= 2:
                return sp.Max(*[self.ex(a, env) for a in args])
            if last in ('min', 'fmin', 'minimum') and len(args) >= 2:
                return sp.Min(*[self.ex(a, env) for a in args])
            if last in ('pow', 'power') and len(args) == 2:
                return sp.Pow(self.ex(args[0], env), self.ex(args[1], env))
            if last in ('float', 'double') and len(args) == 1:
                return self.ex(args[0], env)
            if last == 'int' and len(args) == 1:
                return F('int')(self.ex(args[0], env))
            if last == 'len' and len(args) == 1:
                return sp.Function('len', integer=True, nonnegative=True)(self.ex(args[0], env))
            if last == 'isnan' and len(args) == 1:
                return F('isnan')(self.ex(args[0], env))
        for suffix in self.fresh_calls:
            if name == suffix or name.endswith('.' + suffix):
                k = self.fresh_count.get(suffix, 0) + 1
                self.fresh_count[suffix] = k
                return sp.Symbol('%s#%d' % (suffix, k), positive=True)
        # self.method(...) -> inline through the class table
        if (isinstance(fn, ast.Attribute) and isinstance(fn.value, ast.Name) and fn.value.id == 'self'
                and self.prog is not None and self.cls is not None and len(self.inlined) < self.max_inline):
            dc, f = self.prog.resolve_method(self.cls, fn.attr)
            if f is not None:
                params = [a.arg for a in f.args.args]
                if params and params[0] == 'self':
                    params = params[1:]
                if len(params) >= len(args):
                    sub_env = {}
                    for p, a in zip(params, args):
                        sub_env[p] = ('alias', a, env)
                    self.inlined.append((dc, fn.attr))
                    try:
                        cases = self.run(f, sub_env)
                    finally:
                        self.inlined.pop()
                    if len(cases) == 1 and not cases[0].conds:
                        return cases[0].value
                    pw = []
                    for c in cases:
                        cond = sp.And(*[(self._bool(x) if t else sp.Not(self._bool(x))) for x, t in c.conds if isinstance(x, sp.Basic)]) if c.conds else True
                        pw.append((c.value, cond))
                    return sp.Piecewise(*pw)
        argv = [self.ex(a, env) for a in args]
        kws = [sp.Tuple(sp.Symbol(k.arg or '**'), self.ex(k.value, env)) for k in n.keywords]
        return F(name)(*(argv + kws))

    # ---------------------------------------------------------------- statements
    def run(self, fdef, env=None):
        """Return the list of Cases (path condition, returned term)."""
        env = dict(env or {})
        # resolve aliases (argument passing on inlining): evaluate actuals in caller env
        for k, v in list(env.items()):
            if isinstance(v, tuple) and v and v[0] == 'alias':
                env[k] = self.ex(v[1], v[2])
        out = []
        self._block(fdef.body, env, [], out)
        return out

    def run_env(self, fdef, env=None):
        """(final environment on fall-through or None, list of return Cases)."""
        env = dict(env or {})
        out = []
        final = self._block(fdef.body, env, [], out)
        return final, out

    def _block(self, stmts, env, conds, out):
        """Execute stmts; returns env if control falls through, else None."""
        for i, s in enumerate(stmts):
            if isinstance(s, ast.Expr):
                if isinstance(s.value, ast.Constant):
                    continue   # docstring / ellipsis
                if isinstance(s.value, ast.Call):
                    nm = src(s.value.func)
                    if nm in ('print',) or nm.startswith('logging.') or nm.startswith('warnings.'):
                        continue
                if getattr(self, 'on_expr', None) is not None and self.on_expr(s, env, self):
                    continue
                raise Unsupported('statement with side effect at line %s: %s' % (s.lineno, src(s)))
            if isinstance(s, (ast.Pass, ast.Global, ast.Import, ast.ImportFrom)):
                continue
            if isinstance(s, ast.AnnAssign):
                if s.value is not None:
                    env[s.target.id] = self.ex(s.value, env)
                continue
            if isinstance(s, ast.Assign) and len(s.targets) == 1 and isinstance(s.targets[0], (ast.Tuple, ast.List)) \
                    and isinstance(s.value, (ast.Tuple, ast.List)) and len(s.value.elts) == len(s.targets[0].elts) \
                    and all(isinstance(t, (ast.Name, ast.Subscript, ast.Attribute)) for t in s.targets[0].elts):
                # `a, b = x, y`: every value is read before any target is written
                vs = [self.ex(e, env) for e in s.value.elts]
                for t, v in zip(s.targets[0].elts, vs):
                    env[t.id if isinstance(t, ast.Name) else src(t)] = v
                continue
            if isinstance(s, ast.Assign):
                v = self.ex(s.value, env)
                for t in s.targets:
                    if isinstance(t, ast.Name):
                        env[t.id] = v
                    elif isinstance(t, (ast.Subscript, ast.Attribute)):
                        env[src(t)] = v
                    else:
                        raise Unsupported('assignment target %s' % src(t))
                continue
            if isinstance(s, ast.AugAssign):
                cur = self.ex(s.target, env)
                v = self.ex(ast.BinOp(left=s.target, op=s.op, right=s.value), env)
                key = s.target.id if isinstance(s.target, ast.Name) else src(s.target)
                env[key] = v
                continue
            if isinstance(s, ast.Return):
                out.append(Case(list(conds), self.ex(s.value, env) if s.value is not None else sp.Symbol('None'), s))
                return None
            if isinstance(s, ast.Raise):
                out.append(Case(list(conds), sp.Symbol('RAISE'), s))
                return None
            if isinstance(s, ast.If):
                c = self.ex(s.test, env)
                if c == sp.true or c is True:
                    e1 = self._block(s.body, env, conds, out)
                    if e1 is None:
                        return None
                    env = e1
                    continue
                if c == sp.false or c is False:
                    e1 = self._block(s.orelse, env, conds, out)
                    if e1 is None:
                        return None
                    env = e1
                    continue
                e1 = self._block(s.body, dict(env), conds + [(c, True)], out)
                e2 = self._block(s.orelse, dict(env), conds + [(c, False)], out)
                rest = stmts[i + 1:]
                if e1 is None and e2 is None:
                    return None
                if e1 is None:
                    env = e2
                    conds = conds + [(c, False)]
                    continue
                if e2 is None:
                    env = e1
                    conds = conds + [(c, True)]
                    continue
                # both fall through: merge variable-wise with Piecewise
                merged = dict(e2)
                for k in set(e1) | set(e2):
                    a, b = e1.get(k), e2.get(k)
                    if (a is None or b is None) and not k.isidentifier():
                        # an attribute / array entry written on one side only keeps its earlier content on the other side
                        try:
                            old = self.ex(ast.parse(k, mode='eval').body, env)
                        except Exception:
                            old = None
                        if old is not None:
                            a, b = (a if a is not None else old), (b if b is not None else old)
                    if a is None or b is None:
                        merged[k] = a if a is not None else b      # a local bound on one side only
                    elif a != b:
                        try:
                            merged[k] = sp.Piecewise((a, self._bool(c)), (b, True))
                        except Exception:
                            raise Unsupported('cannot merge %s after if at line %s' % (k, s.lineno))
                env = merged
                continue
            if isinstance(s, ast.For):
                env = self._for(s, env)
                continue
            if isinstance(s, ast.While):
                f = self._while_as_for(s, env)
                if f is not None:
                    env = self._for(f, env)
                    env[f.target.id] = self.ex(f.iter.args[-1], env)
                    continue
            if isinstance(s, ast.Assert):
                continue
            raise Unsupported('unsupported statement %s at line %s' % (type(s).__name__, s.lineno))
        return env

    def _while_as_for(self, s, env):
        """`i = a; while i < n: BODY; i += 1`  ->  `for i in range(a, n): BODY`  (counting loop idiom)"""
        t = s.test
        if s.orelse or not (isinstance(t, ast.Compare) and len(t.ops) == 1 and isinstance(t.ops[0], (ast.Lt, ast.NotEq)) and isinstance(t.left, ast.Name)):
            return None
        i = t.left.id
        if i not in env or not s.body:
            return None
        last = s.body[-1]
        from . import util as _u
        af = _u.aug_form(last)
        if af is None or af[1] is not ast.Add or src(af[0]) != i or not (isinstance(af[2], ast.Constant) and af[2].value == 1):
            return None
        for st in s.body[:-1]:
            for n in ast.walk(st):
                if isinstance(n, ast.Name) and n.id == i and isinstance(n.ctx, ast.Store):
                    return None
                if isinstance(n, (ast.Break, ast.Continue, ast.Return)):
                    return None
        start = env[i]
        lo = ast.Constant(value=int(start)) if getattr(start, 'is_Integer', False) else None
        if lo is None:
            return None
        f = ast.For(target=ast.Name(id=i, ctx=ast.Store()), iter=ast.Call(func=ast.Name(id='range', ctx=ast.Load()), args=[lo, t.comparators[0]], keywords=[]),
                    body=s.body[:-1] or [ast.Pass()], orelse=[])
        ast.copy_location(f, s)
        ast.fix_missing_locations(f)
        return f

    def _range(self, it, env):
        if not (isinstance(it, ast.Call) and src(it.func) in ('range', 'xrange')):
            raise Unsupported('loop over non-range %s' % src(it))
        a = [self.ex(x, env) for x in it.args]
        if len(a) == 1:
            return sp.Integer(0), a[0]
        if len(a) == 2:
            return a[0], a[1]
        raise Unsupported('range with step')

    def _for(self, s, env):
        """Accumulate idioms: body = AugAssign on names (and nested such loops / guarded ones)."""
        if not isinstance(s.target, ast.Name) or s.orelse:
            raise Unsupported('for target/else at line %s' % s.lineno)
        lo, hi = self._range(s.iter, env)
        # unique bound variable per loop
        iv = sp.Symbol('%s_%d' % (s.target.id, s.lineno), integer=True, nonnegative=True)
        benv = dict(env)
        benv[s.target.id] = iv
        accs = self._acc_targets(s.body)
        if accs is None:
            raise Unsupported('loop body at line %s is not an accumulate idiom' % s.lineno)
        # evaluate the body once with accumulators replaced by placeholders
        ph = {}
        for k, op in accs.items():
            if not k.isidentifier() and s.target.id in {n.id for n in ast.walk(ast.parse(k, mode='eval')) if isinstance(n, ast.Name)}:
                raise Unsupported('accumulator %s depends on the loop variable at line %s' % (k, s.lineno))
            ph[k] = sp.Symbol('__acc_%s_%d' % (k, s.lineno), positive=True)
            benv[k] = ph[k]
        after = self._block(s.body, benv, [], [])
        if after is None:
            raise Unsupported('loop body exits at line %s' % s.lineno)
        env = dict(env)
        for k, op in accs.items():
            start = env.get(k)
            if start is None:
                raise Unsupported('accumulator %s undefined before loop at line %s' % (k, s.lineno))
            res = after[k]
            if op == '*':
                factor = sp.simplify(res / ph[k])
                if factor.has(ph[k]):
                    env[k] = self._recurrence(k, res, ph, start, iv, lo, hi, s)
                    continue
                env[k] = start * sp.Product(factor, (iv, lo, hi - 1))
            else:
                term = sp.expand(res - ph[k])
                if term.has(ph[k]):
                    env[k] = self._recurrence(k, res, ph, start, iv, lo, hi, s)
                    continue
                env[k] = start + sp.Sum(term, (iv, lo, hi - 1))
        return env

    def _recurrence(self, k, res, ph, start, iv, lo, hi, s):
        """A loop-carried value that is neither a running product nor a running sum of terms free of itself (`x *= x`, `a = 2*a + 1`):
        kept as an ITER node - the value after iterating  acc -> res[acc]  for iv = lo..hi-1  from `start` - which a rule expands once
        the bounds are concrete (expand_iter).  Coupled recurrences (the body reads another accumulator of the same loop) are not
        represented."""
        others = [v for kk, v in ph.items() if kk != k]
        if any(res.has(o) for o in others):
            raise Unsupported('coupled accumulators (%s) at line %s' % (k, s.lineno))
        return ITER(res, ph[k], start, iv, lo, hi - 1)

    def _acc_targets(self, body):
        accs = {}
        local = set()       # names (re)bound by a plain assignment in this body: temporaries of one iteration, also when an inner loop accumulates into them
        for st in body:
            if isinstance(st, ast.AugAssign) and isinstance(st.target, (ast.Name, ast.Subscript, ast.Attribute)):
                op = '*' if isinstance(st.op, (ast.Mult, ast.Div)) else '+' if isinstance(st.op, (ast.Add, ast.Sub)) else None
                key = st.target.id if isinstance(st.target, ast.Name) else src(st.target)
                if op is None or accs.get(key, op) != op:
                    return None
                accs[key] = op
            elif isinstance(st, ast.For):
                sub = self._acc_targets(st.body)
                if sub is None:
                    return None
                for k, op in sub.items():
                    if k in local:
                        continue
                    if accs.get(k, op) != op:
                        return None
                    accs[k] = op
            elif isinstance(st, (ast.AnnAssign, ast.Pass)):
                continue
            elif isinstance(st, ast.Assign) and len(st.targets) == 1 and isinstance(st.targets[0], (ast.Name, ast.Subscript, ast.Attribute)):
                t = st.targets[0].id if isinstance(st.targets[0], ast.Name) else src(st.targets[0])
                v = st.value
                if isinstance(v, ast.BinOp) and src(v.left) == t and \
                        isinstance(v.op, (ast.Mult, ast.Div, ast.Add, ast.Sub)):
                    op = '*' if isinstance(v.op, (ast.Mult, ast.Div)) else '+'
                elif isinstance(v, ast.BinOp) and src(v.right) == t and \
                        isinstance(v.op, (ast.Mult, ast.Add)):
                    op = '*' if isinstance(v.op, ast.Mult) else '+'
                elif not isinstance(st.targets[0], ast.Name):
                    return None
                elif t in {n.id for n in ast.walk(v) if isinstance(n, ast.Name)}:
                    return None
                else:
                    if t not in accs:
                        local.add(t)
                    continue    # loop-local temporary
                if accs.get(t, op) != op:
                    return None
                accs[t] = op
            elif isinstance(st, ast.Expr) and isinstance(st.value, ast.Constant):
                continue
            else:
                return None
        return accs


# ------------------------------------------------------------------------------------
# A3 comparison
# ------------------------------------------------------------------------------------

def _atoms_outermost(e):
    """AppliedUndef atoms that are not nested inside another AppliedUndef."""
    out = []

    def rec(x, inside):
        if isinstance(x, AppliedUndef):
            if not inside:
                out.append(x)
            for a in x.args:
                rec(a, True)
            return
        for a in x.args:
            rec(a, inside)
    rec(e, False)
    return out


def numeric_points(exprs, n=6, seed=1, integer_names=()):
    """Random positive rational assignments for all free symbols / opaque applied functions."""
    rnd = _random.Random(seed)
    pts = []
    for _ in range(n):
        m = {}
        atoms = set()
        for e in exprs:
            atoms |= set(_atoms_outermost(e))
        # inner applied functions are replaced with their outer ones (opaque)
        for a in sorted(atoms, key=lambda x: sp.default_sort_key(x)):
            if a.is_integer:
                m[a] = sp.Integer(rnd.randint(1, 4))
            else:
                m[a] = sp.Rational(rnd.randint(11, 97), rnd.randint(7, 23))
        syms = set()
        for e in exprs:
            syms |= e.xreplace(m).free_symbols
        for s in sorted(syms, key=lambda x: x.name):
            if s.is_integer or s.name in integer_names:
                m[s] = sp.Integer(rnd.randint(1, 4))
            else:
                m[s] = sp.Rational(rnd.randint(11, 97), rnd.randint(7, 23))
        pts.append(m)
    return pts


def evaluate(e, point):
    v = e.xreplace(point)
    v = v.doit()
    try:
        return sp.N(v, 40)
    except Exception:
        return v


def equal(a, b, seed=1, n=6):
    """(True, None) if a == b as real functions, else (False, witness point with the two values).

    Decided by sympy simplification for equality; inequality is only ever reported with a
    concrete evaluation point at which the two terms differ."""
    a, b = sp.sympify(a), sp.sympify(b)
    if a == b:
        return True, None
    # a branch taken on a thin set (`Piecewise((e, Eq(n, 1)), ...)`) is never hit by random sampling: compare it on that set
    for side in (a, b):
        for pw in sorted(side.atoms(sp.Piecewise), key=lambda x: len(str(x))):
            for expr, cond in pw.args:
                eqs = [cond] if isinstance(cond, sp.Eq) else ([c for c in cond.args if isinstance(c, sp.Eq)] if isinstance(cond, sp.And) else [])
                sub = {}
                for e in eqs:
                    if e.rhs.is_number and not e.lhs.is_number:
                        sub[e.lhs] = e.rhs
                    elif e.lhs.is_number and not e.rhs.is_number:
                        sub[e.rhs] = e.lhs
                if sub:
                    a2, b2 = a.xreplace({pw: expr}).xreplace(sub), b.xreplace({pw: expr}).xreplace(sub)
                    if a2.atoms(sp.Piecewise) == a.atoms(sp.Piecewise) and b2.atoms(sp.Piecewise) == b.atoms(sp.Piecewise):
                        continue
                    ok_, wit_ = equal(a2, b2, seed=seed, n=n)
                    if not ok_:
                        wit_ = dict(wit_ or {})
                        wit_['on'] = ', '.join('%s = %s' % kv for kv in sub.items())
                        return False, wit_
    wit = None
    agree = 0
    for p in numeric_points([a, b], n=n, seed=seed):
        va, vb = evaluate(a, p), evaluate(b, p)
        try:
            if va.has(sp.nan) or vb.has(sp.nan) or va.has(sp.zoo) or vb.has(sp.zoo):
                continue
            if va.free_symbols or vb.free_symbols:
                continue
            d = abs(sp.N(va - vb, 40))
            scale = max(abs(sp.N(va, 40)), abs(sp.N(vb, 40)), 1)
            if d > scale * sp.Float('1e-25'):
                wit = {'point': {str(k): str(v) for k, v in p.items()}, 'lhs': str(sp.N(va, 12)), 'rhs': str(sp.N(vb, 12))}
                return False, wit
            agree += 1
        except TypeError:
            continue
    if agree >= 3:
        return True, None
    try:
        d = sp.simplify(a - b)
        if d == 0:
            return True, None
    except Exception:
        pass
    raise AnalysisError('undecided comparison: %s  vs  %s' % (a, b))
