import numpy as np
from bioscrape.types import Model
from bioscrape.simulator import ModelCSimInterface, py_simulate_model
def build(k):
    return Model(species=['A','B','T'], parameters={'k':k}, reactions=[(['A'],['B'],'massaction',{'k':'k'})],
                 rules=[('assignment', {'equation':'T = A + B'})], initial_condition_dict={'A':10.,'B':0.,'T':0.})
tp=np.linspace(0,1,11)
M=build(1.0); I=ModelCSimInterface(M); I.py_prep_deterministic_simulation()
r1=py_simulate_model(tp, Interface=I, return_dataframe=False).py_get_result()
M.set_parameter('k', 5.0)
r2=py_simulate_model(tp, Interface=I, return_dataframe=False).py_get_result()
fresh=py_simulate_model(tp, Model=build(5.0), return_dataframe=False).py_get_result()
print('after edit, prebuilt interface A(1)=%.4f ; fresh model with same definition A(1)=%.4f'%(r2[-1,0], fresh[-1,0]))
