"""
C19 demo: every daughter in a simulated lineage must start from a partition of
its mother's last recorded state (binomial species conserved, volumes sum to
the mother's), at its mother's division time, with mutual parent/daughter links.

The case exercised: a model with a deterministic cell-cycle time (time division
rule) so that the last generation of cells divides exactly in the final interval
of the time grid.

exit 0 / PASS: property holds.   exit 1 / FAIL: it does not.
"""
import os
import sys
import warnings
import numpy as np

# use the bioscrape of the source tree this script lives in (<tree>/_seed/demo.py)
sys.path.insert(0, os.path.dirname(os.path.dirname(os.path.abspath(__file__))))

from bioscrape.lineage import LineageModel, LineageVolumeSplitter, py_SimulateCellLineage
from bioscrape.random import py_seed_random


def build_model():
    species = ["X", "Y"]
    rxns = [
        [[], ["X"], "massaction", {"k": 200.0}],
        [["X"], [], "massaction", {"k": 1.0}],
        [["X"], ["X", "Y"], "massaction", {"k": 0.2}],
    ]
    x0 = {"X": 150, "Y": 40}
    M = LineageModel(species=species, reactions=rxns, initial_condition_dict=x0)
    vsplit = LineageVolumeSplitter(M)  # all species binomial, binomial volume
    M.create_volume_rule("linear", {"growth_rate": 1.0})
    # cell-cycle time just under one time unit: the rule fires at the first reaction after
    # age 0.97, i.e. in the grid interval that ends at birth time + 1.0
    M.create_division_rule("time", {"threshold": 0.97}, vsplit)
    M.py_initialize()
    return M


def check_lineage(lin, final_time, tag):
    problems = []
    n = lin.py_size()
    n_div = 0
    n_div_at_end = 0
    for i in range(n):
        s = lin.py_get_schnitz(i)
        t, dat, vol = s.py_get_time(), s.py_get_data(), s.py_get_volume()
        if not (np.asarray(vol) > 0).all():
            problems.append(f"{tag}: schnitz {i} has a non-positive volume row")
        d1, d2 = s.py_get_daughters()
        if (d1 is None) != (d2 is None):
            problems.append(f"{tag}: schnitz {i} has exactly one daughter")
            continue
        if d1 is None:
            continue
        n_div += 1
        if abs(t[-1] - final_time) < 1e-9:
            n_div_at_end += 1
        for d in (d1, d2):
            if d.py_get_parent() is not s:
                problems.append(f"{tag}: daughter of schnitz {i} does not point back to it")
            if abs(d.py_get_time()[0] - t[-1]) > 1e-9:
                problems.append(f"{tag}: daughter of schnitz {i} starts at {d.py_get_time()[0]} "
                                f"but mother divided at {t[-1]}")
        mother = np.asarray(dat[-1])
        a = np.asarray(d1.py_get_data()[0])
        b = np.asarray(d2.py_get_data()[0])
        if (a < 0).any() or (b < 0).any():
            problems.append(f"{tag}: negative daughter counts below schnitz {i}")
        if not np.allclose(a + b, mother, atol=1e-9):
            problems.append(f"{tag}: molecules not conserved at division of schnitz {i} "
                            f"(t={t[-1]:.3f}): mother {mother}, daughters {a} + {b}")
        v1, v2 = d1.py_get_volume()[0], d2.py_get_volume()[0]
        if abs(v1 + v2 - vol[-1]) > 1e-9 * max(1.0, vol[-1]):
            problems.append(f"{tag}: volume not conserved at division of schnitz {i}: "
                            f"{vol[-1]} -> {v1} + {v2}")
    return problems, n_div, n_div_at_end


def main():
    import bioscrape.lineage
    print("using", bioscrape.lineage.__file__)
    M = build_model()
    dt = 0.05
    problems = []
    total_div = 0
    total_div_end = 0
    # final times 2.0 and 3.0: a whole generation divides in the last grid interval;
    # final time 2.5: control, nobody divides near the end
    for final_time in (2.5, 2.0, 3.0):
        timepoints = np.arange(0, final_time + dt / 2, dt)
        for seed in (11, 12, 13):
            py_seed_random(seed)
            with warnings.catch_warnings():
                warnings.simplefilter("ignore")
                lin = py_SimulateCellLineage(timepoints, Model=M)
            p, nd, nde = check_lineage(lin, timepoints[-1], f"T={final_time} seed={seed}")
            problems += p
            total_div += nd
            total_div_end += nde

    print(f"divisions checked: {total_div} (of which recorded at the final time point: {total_div_end})")
    if problems:
        print("FAIL")
        for line in problems[:10]:
            print("  ", line)
        if len(problems) > 10:
            print(f"   ... and {len(problems) - 10} more")
        return 1
    if total_div == 0:
        print("FAIL: the case exercised no division at all")
        return 1
    print("PASS")
    return 0


if __name__ == "__main__":
    sys.exit(main())
