"""Before fix 'safe interfaces read past their requirement table ...': this script segfaults (exit 139).  After: prints ok."""
import numpy as np
from bioscrape.types import Model
from bioscrape.simulator import py_simulate_model
M = Model(species=['A'], parameters={'k': 1.0}, reactions=[(['A'], [], 'massaction', {'k': 'k'})], initial_condition_dict={'A': 5.})
for i in range(20):
    r = py_simulate_model(np.linspace(0, 5, 51), Model=M, stochastic=True, safe=True, return_dataframe=False).py_get_result()
print('ok', r[-1])
