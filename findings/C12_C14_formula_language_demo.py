"""Triage demonstration for C12/R12.5-formula-language and C14/R14.6-formula-language (run with /venv/bin/python).

Before /repo fixes 601cc7d / a496e6d:
  * a general rate `k*log(A+1)` was exported as k*log10(A+1) (libsbml.parseL3Formula reads a bare log as log10) and the file could
    not be re-imported ("This should be a number: log10(A + 1)");
  * a rule `B = k*-A^2 + log(A+1)` was exported through Rule.setFormula (legacy parser) as k*(-A)^2 + ln(A+1): B(0) = -16.6 before,
    +19.4 after the round trip;
  * a rule `B = 20 - A**2` was exported without any math element.
After the fixes all three round-trip exactly.  Exit 0 = round trip exact, 1 = not.
Still open (known finding C14/R14.6-formula-language/kinetic-law/Heaviside): Heaviside(...) is written as a call of an undefined function.
"""
import sys
import warnings
import numpy as np
warnings.simplefilter('ignore')
from bioscrape.types import Model
from bioscrape.sbmlutil import import_sbml
from bioscrape.simulator import py_simulate_model
import libsbml

bad = []
t = np.linspace(0, 1, 5)
for name, rate, rule in (('log in a rate', 'k*log(A+1)', None), ('unary minus before a power in a rule', None, 'B = k*-A^2 + log(A+1)'),
                         ('** in a rule', None, 'B = 20 - A**2')):
    rxn = (['A'], ['C'], 'general', {'rate': rate}) if rate else (['A'], ['C'], 'massaction', {'k': 'k'})
    m = Model(species=['A', 'B', 'C'], parameters={'k': 2.}, reactions=[rxn], initial_condition_dict={'A': 3},
              rules=[('assignment', {'equation': rule})] if rule else [])
    m.write_sbml_model('/tmp/_formula_language_demo.xml')
    try:
        m2 = import_sbml('/tmp/_formula_language_demo.xml')
        a, b = py_simulate_model(t, Model=m), py_simulate_model(t, Model=m2)
        ok = np.allclose(a[['A', 'B', 'C']].values, b[['A', 'B', 'C']].values)
        print('%-40s %s' % (name, 'round trip exact' if ok else 'DIFFERENT after the round trip: B(0) %s vs %s' % (a['B'][0], b['B'][0])))
    except Exception as e:
        ok = False
        print('%-40s re-import failed: %s: %s' % (name, type(e).__name__, e))
    if not ok:
        bad.append(name)
d = libsbml.readSBML('/tmp/_formula_language_demo.xml')
print('FAIL' if bad else 'PASS')
sys.exit(1 if bad else 0)

# --- added later: parameter ids (fix ce6650e) -------------------------------------------------------------------------------------
# Before: Model(parameters={'_q': 2.}, reactions=[(['A'],['B'],'massaction',{'k':'_q'})]).write_sbml_model(f) wrote parameter id 'q' and the law
# '_q * A'; import_sbml(f) failed with "Unspecified Parameters: _q".  After: id '_q', law '_q * A', round trip exact.
