"""A general rate (A^B)^2 written to SBML and read back becomes A^(B^2): libsbml's formulaToL3String prints a power whose base is a
power without parentheses (A^B^2) and bioscrape reads that text with ^ associating to the right.  exit 1 = defect present."""
import sys, os, tempfile, warnings
warnings.simplefilter('ignore')
import numpy as np
from bioscrape.types import Model
from bioscrape.sbmlutil import import_sbml
M = Model(species=['A', 'B', 'C'], parameters=[('k', 1.0)], reactions=[(['A'], ['C'], 'general', {'rate': 'k*(A^B)^2'})],
          initial_condition_dict={'A': 2.0, 'B': 3.0, 'C': 0.0})
d = tempfile.mkdtemp()
f = os.path.join(d, 'm.xml')
M.write_sbml_model(f)
M2 = import_sbml(f)
from bioscrape.simulator import ModelCSimInterface
def rate(m):
    m.py_initialize()
    iface = ModelCSimInterface(m)
    iface.py_prep_deterministic_simulation()
    s = np.zeros(3)
    for name, i in m.get_species2index().items():
        s[i] = {'A': 2.0, 'B': 3.0, 'C': 0.0}[name]
    out = np.zeros(3)
    iface.py_calculate_deterministic_derivative(s, out, 0.0)
    return out[m.get_species2index()['C']]
r1, r2 = rate(M), rate(M2)
print('original rate at A=2, B=3:', r1, ' after write + read:', r2)
if abs(r1 - r2) > 1e-9:
    print('FAIL: the rate law changed in the round trip'); sys.exit(1)
print('PASS')
