import numpy as np, warnings
warnings.simplefilter('ignore')
from bioscrape.lineage import LineageModel, py_SimulateSingleCell, py_SimulateCellLineage, LineageVolumeCellState
import bioscrape.lineage as L
M = LineageModel(species=['X'], reactions=[([], ['X'], 'massaction', {'k': 5.0})], initial_condition_dict={'X': 20})
M.create_death_rule('species', {'specie': 'X', 'comp': '>', 'threshold': 10})
M.py_initialize()
t = np.arange(0, 5, 0.5)
r = py_SimulateSingleCell(t, Model=M)



print(r)
