#!/venv/bin/python
"""Self-test of the driver's verdict rules (bsverif/core.py) on synthetic rule modules: which combinations of failed obligations,
listed findings, analysis errors and normal-form results give exit 0 / 1 / 2.  Not a registered check; run by hand after touching
core.py:  PYTHONHASHSEED=0 /venv/bin/python tools/driver_selftest.py"""
import io
import os
import sys
import tempfile
import types
from contextlib import redirect_stdout

sys.path.insert(0, os.path.dirname(os.path.dirname(os.path.abspath(__file__))))
os.environ['VERIF_EVIDENCE_DIR'] = tempfile.mkdtemp(prefix='driver_selftest_')
from bsverif import core                      # noqa: E402
from bsverif.front import AnalysisError       # noqa: E402


def module(body):
    m = types.ModuleType('bsverif.rules.c99')
    m.__doc__ = 'synthetic'
    m.check = body
    sys.modules['bsverif.rules.c99'] = m


def run(body, known=()):
    module(body)
    core.load_known = lambda: ({k: {'id': k} for k in known}, [])
    out = io.StringIO()
    with redirect_stdout(out):
        rc = core.run_property('C99', 'quick')
    return rc, out.getvalue()


def fail_then_stop(ctx):
    ctx.ob('R', 'a', False, 'f.py:1', 'rule', 'detail')
    raise AnalysisError('later rule not evaluable')


def ok_then_stop(ctx):
    ctx.ob('R', 'a', True, 'f.py:1', 'rule', '')
    raise AnalysisError('later rule not evaluable')


def normal_form_only_failure(ctx):
    if core.INLINE_MODE[0]:
        ctx.ob('R', 'a', False, 'f.py:1', 'rule', 'fails on the normal form only')
    raise AnalysisError('not evaluable on either form')


def fails_raw_discharged_on_normal_form(ctx):
    ctx.ob('R', 'a', core.INLINE_MODE[0], 'f.py:1', 'rule', 'text comparison')


def discharged_on_stopped_normal_form(ctx):
    ctx.ob('R', 'a', core.INLINE_MODE[0], 'f.py:1', 'rule', 'text comparison')
    if core.INLINE_MODE[0]:
        raise AnalysisError('normal form stops after the obligation')


def plain_failure(ctx):
    ctx.ob('R', 'a', False, 'f.py:1', 'rule', 'detail')


CASES = [
    ('an unlisted failure stands when the analysis stops later', fail_then_stop, (), 1),
    ('a listed failure does not: a stopped analysis is an analysis error', fail_then_stop, ('C99/R/a',), 2),
    ('a stopped analysis without failures is an analysis error', ok_then_stop, (), 2),
    ('a failure that exists only on the (stopped) normal form is not a violation', normal_form_only_failure, (), 2),
    ('an obligation discharged on the normal form holds', fails_raw_discharged_on_normal_form, (), 0),
    ('... also when the normal-form analysis stops after discharging it', discharged_on_stopped_normal_form, (), 0),
    ('a plain failure is a violation', plain_failure, (), 1),
    ('a listed plain failure is a known finding', plain_failure, ('C99/R/a',), 0),
]
bad = 0
for label, body, known, want in CASES:
    rc, text = run(body, known)
    ok = rc == want and (('VIOLATION property=C99' in text) == (want == 1)) and (('KNOWN-FINDING' in text) == (want == 0 and bool(known)))
    print('%s  exit %d (expected %d)  %s' % ('ok  ' if ok else 'FAIL', rc, want, label))
    bad += not ok
sys.exit(1 if bad else 0)
