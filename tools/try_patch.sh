#!/bin/sh
# usage: try_patch.sh <patch.diff> [ids...]   applies the patch to /repo, runs the checks (in parallel), reverts the patch.
# Prints one line per check.
p=$1; shift
ids="$@"; [ -z "$ids" ] && ids="C01 C02 C03 C04 C05 C06 C07 C08 C09 C10 C11 C12 C13 C14 C15 C16 C17 C18 C19 C20"
git -C /repo apply "$p" || { echo "PATCH DOES NOT APPLY"; exit 3; }
one() {
  out=$(VERIF_EVIDENCE_DIR=/tmp/try_evidence/$1 /verif/check $1 2>&1); rc=$?
  echo "$1 rc=$rc $(echo "$out" | grep -E '^  FAIL|ANALYSIS-ERROR' | head -4 | tr '\n' ' ' | cut -c1-300)"
}
for i in $ids; do one $i > /tmp/try_out_$i.txt & done
wait
for i in $ids; do cat /tmp/try_out_$i.txt; rm -f /tmp/try_out_$i.txt; done
git -C /repo checkout -- bioscrape lineage
rm -rf /tmp/try_evidence
