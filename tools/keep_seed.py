#!/venv/bin/python
"""keep_seed.py <worktree> <seed-id> <property> "<needs>" "<caught-by>" : copy patch/demo/notes into /verif/seeded/<seed-id>/ with meta.json"""
import json, os, shutil, sys
wt, sid, prop, needs, caught = sys.argv[1:6]
d = os.path.join('/verif/seeded', sid)
os.makedirs(d, exist_ok=True)
for f in ('patch.diff', 'demo.py', 'notes.md'):
    if os.path.exists(os.path.join(wt, '_seed', f)):
        shutil.copy(os.path.join(wt, '_seed', f), os.path.join(d, f))
for f in os.listdir(os.path.join(wt, '_seed')):
    if f.endswith(('.py', '.xml')) and f not in ('demo.py',):
        shutil.copy(os.path.join(wt, '_seed', f), os.path.join(d, f))
meta = {'seed_id': sid, 'breaks_property': prop, 'needs_to_manifest': needs,
        'confirmed_by': 'tools/confirm_seed.sh (fresh scratch worktree of /repo HEAD + patch, rebuilt; source dir %s): demo exits 1 with the change applied, exits 0 on unchanged /repo; 54 tests pass with the change' % wt,
        'checks_run': 'tools/try_patch.sh seeded/%s/patch.diff' % sid, 'caught_by': caught,
        'written_by': 'independent sub-agent given only the property text and a scratch worktree'}
json.dump(meta, open(os.path.join(d, 'meta.json'), 'w'), indent=1)
print('kept', d)
