#!/bin/sh
# usage: confirm_seed.sh <dir with patch.diff and demo.py>
# Builds a FRESH scratch worktree of /repo, applies the patch, rebuilds, runs the demo (must exit 1) and the test suite (must pass),
# runs the demo against unchanged /repo (must exit 0), removes the worktree.
sd=$(cd $1 && pwd)
wt=/tmp/wt/confirm_$$
/verif/tools/mkworktree.sh confirm_$$ > /dev/null || exit 3
cd $wt && git apply $sd/patch.diff || { echo "PATCH DOES NOT APPLY"; git -C /repo worktree remove --force $wt; exit 3; }
if git diff --name-only | grep -q "pyx\|pxd"; then /venv/bin/python setup.py build_ext --inplace > /tmp/confirm_build_$$.log 2>&1 || { echo "BUILD FAILED"; tail -5 /tmp/confirm_build_$$.log; }; fi
mkdir -p $wt/_seed && cp $sd/*.py $sd/*.xml $wt/_seed/ 2>/dev/null
cd $wt && PYTHONPATH=$wt /venv/bin/python _seed/demo.py > /tmp/demo_with_$$.txt 2>&1; a=$?
t=$(cd $wt && PYTHONPATH=$wt /venv/bin/python -m pytest -q -p no:cacheprovider --timeout=900 2>&1 | grep -E "passed|failed" | tail -1)
rm -rf /tmp/seedrun_$$; mkdir -p /tmp/seedrun_$$/x/_seed; cp $sd/*.py $sd/*.xml /tmp/seedrun_$$/x/_seed/ 2>/dev/null
cd /repo && PYTHONPATH=/repo /venv/bin/python /tmp/seedrun_$$/x/_seed/demo.py > /tmp/demo_without_$$.txt 2>&1; b=$?
git -C /repo checkout -q -- tests; rm -rf /tmp/seedrun_$$
git -C /repo worktree remove --force $wt
echo "with-change exit=$a ($(tail -1 /tmp/demo_with_$$.txt | cut -c1-140)); unchanged exit=$b ($(tail -1 /tmp/demo_without_$$.txt | cut -c1-60)); tests: $t"
rm -f /tmp/demo_with_$$.txt /tmp/demo_without_$$.txt /tmp/confirm_build_$$.log
