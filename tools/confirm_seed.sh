#!/bin/sh
# usage: confirm_seed.sh <worktree> : demo must FAIL in the worktree (change applied), PASS on /repo, tests must pass in the worktree
wt=$1
cd $wt && PYTHONPATH=$wt /venv/bin/python _seed/demo.py > /tmp/demo_with.txt 2>&1; a=$?
rm -rf /tmp/seedrun; mkdir -p /tmp/seedrun/x/_seed; cp $wt/_seed/*.py /tmp/seedrun/x/_seed/ 2>/dev/null
cd /repo && PYTHONPATH=/repo /venv/bin/python /tmp/seedrun/x/_seed/demo.py > /tmp/demo_without.txt 2>&1; b=$?
cd $wt && t=$(PYTHONPATH=$wt /venv/bin/python -m pytest -q -p no:cacheprovider --timeout=900 2>&1 | grep -E "passed|failed" | tail -1); git checkout -q -- tests
git -C /repo checkout -q -- tests; rm -rf /tmp/seedrun
echo "with-change exit=$a ($(tail -1 /tmp/demo_with.txt | cut -c1-120)); unchanged exit=$b ($(tail -1 /tmp/demo_without.txt | cut -c1-60)); tests: $t"
