#!/venv/bin/python
"""third-round prompt: same task; both mechanisms already submitted for the property are named and excluded"""
import json, os, sys, subprocess
pid = sys.argv[1]; tag = sys.argv[2]
base = subprocess.check_output(['/verif/tools/seed_prompt.py', pid, tag]).decode()
tried = []
for d in sorted(os.listdir('/verif/seeded')):
    mf = os.path.join('/verif/seeded', d, 'meta.json')
    if os.path.exists(mf):
        m = json.load(open(mf))
        if m['breaks_property'] == pid:
            notes = open(os.path.join('/verif/seeded', d, 'notes.md')).read().splitlines()
            title = notes[0].lstrip('# ').strip() if notes else d
            tried.append(title)
if pid == 'C19':
    tried.append('re-ordering the queue branches of SimulateCellLineage so daughters of a division at the final time point are simulated on a one-point grid')
extra = ("\nIMPORTANT - other testers have already submitted changes for this property based on these ideas:\n"
         + ''.join('  * %s\n' % t for t in tried)
         + "Choose a clearly DIFFERENT mechanism and a different function/site for your change (ideally a clause of the property, an option "
           "combination, a propensity/rule/delay type or a code path none of these touch).\n")
print(base.replace("WHAT TO PRODUCE", extra + "\nWHAT TO PRODUCE", 1))
