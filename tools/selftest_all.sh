#!/bin/sh
# runs the thorough tier (quick rules + self-test variants, strict about vanished anchors) for every property; prints one line per property
for i in 01 02 03 04 05 06 07 08 09 10 11 12 13 14 15 16 17 18 19 20; do
  VERIF_SELFTEST_STRICT=1 VERIF_EVIDENCE_DIR=/tmp/st_evidence "$(dirname "$0")/../check" C$i --tier thorough 2>&1 | grep -E "^selftest|SELFTEST-PROBLEM|VIOLATION|ANALYSIS-ERROR"
done
rm -rf /tmp/st_evidence
