#!/bin/sh
# usage: try_wt.sh <dir with a (patched) checkout of bioscrape> [ids...]
# runs the checks against that directory (VERIF_REPO), never touching /repo; one line per check.
d=$1; shift
ids="$@"; [ -z "$ids" ] && ids="C01 C02 C03 C04 C05 C06 C07 C08 C09 C10 C11 C12 C13 C14 C15 C16 C17 C18 C19 C20"
tag=$(basename $d)
one() {
  out=$(VERIF_REPO=$d VERIF_EVIDENCE_DIR=/tmp/try_evidence_$tag/$1 /verif/check $1 2>&1); rc=$?
  echo "$1 rc=$rc $(echo "$out" | grep -E '^  FAIL|ANALYSIS-ERROR' | head -4 | tr '\n' ' ' | cut -c1-300)"
}
for i in $ids; do one $i > /tmp/try_out_${tag}_$i.txt & done
wait
for i in $ids; do cat /tmp/try_out_${tag}_$i.txt; rm -f /tmp/try_out_${tag}_$i.txt; done
rm -rf /tmp/try_evidence_$tag
