#!/venv/bin/python
import json, sys
props={json.loads(l)['id']:json.loads(l) for l in open('/verif/properties.jsonl')}
pid=sys.argv[1]; tag=sys.argv[2] if len(sys.argv)>2 else pid
p=props[pid]
t=open('/verif/tools/seed_prompt.txt').read()
print(t.format(wt='/tmp/wt/'+tag, pid=pid, title=p['title'], statement=p['statement'], quant=p['quantifier']['text'], why=p['why_tests_cant'],
               files=', '.join(p['anchors']['files']), mech='; '.join('%s (%s)'%(m['name'],m.get('where','')) for m in p['anchors']['mechanism'])))
