#!/venv/bin/python
"""Regenerate seeded/README.md from the meta.json files."""
import glob, json, os
rows = []
for m in sorted(glob.glob('/verif/seeded/*/meta.json')):
    d = json.load(open(m))
    rows.append(d)
out = ['# Independently seeded breaking changes', '',
       'Each directory holds `patch.diff` (against /repo HEAD at the time it was written), `demo.py` (exits 1 with the change, 0 without), `notes.md`',
       '(the author\'s own account) and `meta.json`.  None of these changes is ever committed to /repo.  To re-run: ',
       '`tools/try_patch.sh seeded/<id>/patch.diff [check ids]` (applies, runs the checks, reverts) and `tools/confirm_seed.sh seeded/<id>`',
       '(fresh worktree + patch + rebuild: demo must fail, 54 tests must pass; demo must pass on unchanged /repo).', '',
       '| seed | property | needs, to manifest | caught by | first verdict |', '|---|---|---|---|---|']
for d in rows:
    out.append('| %s | %s | %s | %s | %s |' % (d['seed_id'], d['breaks_property'], d['needs_to_manifest'], d['caught_by'], d.get('first_verdict', 'caught as written')))
open('/verif/seeded/README.md', 'w').write('\n'.join(out) + '\n')
print(len(rows), 'seeds')
