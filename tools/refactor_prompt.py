#!/venv/bin/python
import sys
SCOPES = {
 'R1': "bioscrape/types.pyx: the propensity classes (ConstitutivePropensity ... MassActionPropensity, lines ~100-480) and Model.create_propensity / Model.create_reaction / Model._add_reaction / Model._create_stochiometric_matrices / Model.check_parameters.",
 'R2': "bioscrape/types.pyx: the expression Term classes (ConstantTerm ... TimeTerm, lines ~487-776), sympy_species_and_parameters, sympy_recursion, parse_expression, and the Rule classes (Rule, AdditiveAssignmentRule, GeneralAssignmentRule, GeneralODERule, lines ~1082-1280).",
 'R3': "bioscrape/simulator.pyx: the four stochastic simulators SSASimulator.simulate, DelaySSASimulator.delay_simulate, VolumeSSASimulator.volume_simulate, DelayVolumeSSASimulator.delay_volume_simulate, plus DeterministicSimulator._helper_simulate and rhs_global.",
 'R4': "bioscrape/simulator.pyx: ArrayDelayQueue, CSimInterface, ModelCSimInterface, SafeModelCSimInterface, the result classes (SSAResult, DelaySSAResult, VolumeSSAResult, DelayVolumeSSAResult), the volume splitters, and py_simulate_model; and bioscrape/random.pyx (all functions).",
 'R5': "bioscrape/sbmlutil.py: import_sbml, import_sbml_species, import_sbml_parameters, import_sbml_reactions, import_sbml_rules, add_rule, add_reaction; and Model.generate_sbml_model in bioscrape/types.pyx.",
 'R6': "bioscrape/pid_interfaces.py (PIDInterface.check_prior and the seven *_prior functions, the two get_likelihood_function methods), bioscrape/inference_setup.py (InferenceSetup.extract_data, prepare_*), bioscrape/analysis.py (SensitivityAnalysis._evaluate_model, compute_J, compute_Zj), and bioscrape/inference.pyx (BulkData.set_data, ModelLikelihood.set_init_*, the two get_log_likelihood methods).",
 'R7': "lineage/lineage.pyx: LineageModel._create_vectors, add_event, add_lineage_rule, __getstate__/__setstate__; LineageCSimInterface (compute_lineage_propensities, apply_*_rules, partition); LineageVolumeSplitter; LineageSSASimulator.SimulateSingleCell, simulate_daughter_cells, SimulateCellLineage. Also Model.__getstate__/__setstate__ and Schnitz/Lineage state methods in bioscrape/types.pyx.",
}
tag=sys.argv[1]
print(open('/verif/tools/refactor_prompt.txt').read().format(wt='/tmp/wt/'+tag, tag=tag, scope=SCOPES[tag]))
