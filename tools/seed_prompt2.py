#!/venv/bin/python
"""second-round prompt: same task, but other mechanisms than the ones already tried"""
import json, sys, subprocess
pid=sys.argv[1]; tag=sys.argv[2]
base=subprocess.check_output(['/verif/tools/seed_prompt.py', pid, tag]).decode()
tried = {
 'C06': "the safe interface's requirement table (amounts)",
 'C07': "truncation of the time axis after cell division",
 'C08': "hidden state in the random number generator (Box-Muller spare)",
 'C09': "rule_step bookkeeping in the delay simulator",
 'C13': "the local-parameter rename map leaking between reactions",
 'C16': "a cached normalising constant shared between interfaces",
 'C17': "ArrayDelayQueue.__reduce__ dropping start_index",
 'C19': "the division-event index offset (wrong splitter)",
 'C01': "MassActionPropensity.initialize multiset construction (groupby)",
 'C03': "the compressed stoichiometry in prep_deterministic_simulation",
 'C05': "sample_discrete's cumulative sum",
 'C10': "the upper clamp of ArrayDelayQueue.add_reaction",
 'C12': "filtering of rule_frequency values in the SBML reader",
 'C14': "collapsing of repeated reactants in add_reaction (groupby)",
 'C15': "a cached per-trajectory parameter condition",
 'C18': "compute_Zj not restoring the parameters for non-default schemes",
 'C20': "folding start_index into the index before clamping in add_reaction",
 'C02': "collapsing nested powers in sympy_recursion",
 'C04': "compressed stoichiometry rows accumulating across prep calls",
 'C11': "the mass-action volume exponent (num_species)",
}
extra = "\nIMPORTANT - another tester has already submitted a change for this property based on this idea: %s. Choose a clearly DIFFERENT mechanism and a different function/site for your change.\n" % tried[pid]
print(base.replace("WHAT TO PRODUCE", extra + "\nWHAT TO PRODUCE", 1))
