#!/bin/sh
# usage: mkworktree.sh <name>   -> /tmp/wt/<name>: a git worktree of /repo HEAD with the built extensions copied in
set -e
d=/tmp/wt/$1
git -C /repo worktree add -q --detach "$d" HEAD
cp /repo/bioscrape/*.so "$d/bioscrape/" 2>/dev/null || true
cp /repo/bioscrape/*.cpp "$d/bioscrape/" 2>/dev/null || true
cp /repo/lineage/*.cpp "$d/lineage/" 2>/dev/null || true
cp -r /repo/build "$d/build" 2>/dev/null || true
echo "$d"
