#!/venv/bin/python
"""Regenerate MANIFEST.json from the table below and from which rule modules exist."""
import json
import os

HERE = os.path.dirname(os.path.dirname(os.path.abspath(__file__)))

P = {
 'C01': ('DESIGN.md 3/C01', 'sympy comparison of extracted return terms with the documented closed forms; binding, dispatch and loop shape rules',
         'Decides, for every propensity class x mode x reactant multiset of order <= 4, that the returned expression IS the documented closed form (exact algebra, not sampling), that initialize binds each index from the documented key, that create_propensity dispatches by reactant count and that both interfaces evaluate the requested slot for every reaction. Holds for all states/parameters/volumes because it is a fact about the formula.',
         'formula extraction by def-use substitution + algebraic comparison (syntax tree); declared C types propagated through the rate-law methods (no unsigned subtraction)'),
 'C02': ('DESIGN.md 3/C02', 'Term node semantics, sympy_recursion translation table, rejection paths',
         'Decides the node semantics of all Term classes (evaluate and volume_evaluate), the translation table of sympy_recursion (operator -> node class, operand roles, all args added) and that every path for an unknown name/node raises. What sympify returns for a string is NOT decided.',
         'table agreement + must-raise path rule over the syntax tree; symbolic execution of the node methods with child calls compared by value; purity (no hidden state) of compilation and evaluation'),
 'C03': ('DESIGN.md 3/C03', 'stoichiometry construction, tuple-position agreement, derivative bilinear form, initialisation check',
         'Decides the structural clauses: +-1 accumulation per occurrence into the right dict, tuple positions, matrix fill through species2index, derivative = sum over non-zero net stoichiometry x propensity, check_parameters dominates initialized=True.',
         'syntax-tree pattern rules + must-pass-through; symbolic execution of the derivative loop for rows of 0-3 entries; wrapper delegation'),
 'C04': ('DESIGN.md 3/C04', 'wiring of rhs_global / odeint call / result construction',
         'Decides only the wiring clauses (right-hand side = rules then derivative of the simulated interface; odeint called with the initial state copy and the caller time grid; result labelled with the same grid). Integrator accuracy is NOT decided.',
         'must-pass-through and argument-role rules on the syntax tree; partial evaluation of the option handling for every keyword subset'),
 'C05': ('DESIGN.md 3/C05', 'sampler primitives vs specification; SSA loop ordering',
         'Decides the sampler-structure clauses: exponential_rv / sample_discrete / array_sum formulas and the per-iteration ordering in the SSA loop (propensities from current state -> Lambda -> time -> record -> choose from same buffer -> update by one column). Distributional equality is NOT decided.',
         'formula extraction + path enumeration of the loop body; partial evaluation (constants or unknown) of one pass on a value table and of consecutive passes from the set-up code on a scripted scenario: the event race'),
 'C06': ('DESIGN.md 3/C06', 'state write-set, Lambda==0 path rule, safe-mode requirement table',
         'Decides: every store into the state array is one stoichiometric column per fired event; no feasible path of an iteration reaches sample_discrete/state update when Lambda == 0; safe interface zeroes under-supplied reactions. Boundedness is NOT decided.',
         'path-sensitive flag analysis over all acyclic paths of each loop body'),
 'C07': ('DESIGN.md 3/C07', 'definite assignment over the exhaustive option lattice; abstract-class instantiation; constructor completeness',
         'Enumerates all option combinations abstractly through py_simulate_model (exhaustive over the finite lattice): each ends in an explicit option error or reaches the return with every variable defined, a concrete simulator class, and a result class whose constructor sets every field its methods read.',
         'abstract interpretation over the finite option lattice (definite assignment, explicit errors, simulator dispatch table) + class-table rules'),
 'C08': ('DESIGN.md 3/C08', 'initialized-flag invalidation, clear-before-push pairing, copy/alias rules, seeding write-set, who-may-draw',
         'Decides that each history-erasing mechanism is present on every path of every mutator / entry point. Equality of outputs over arbitrary histories as such is NOT decided.',
         'field write-sets, pairing and who-may-call rules'),
 'C09': ('DESIGN.md 3/C09', 'firing predicate, rule operations, application order, rule_step flag analysis, once-only registration',
         'Decides the firing predicate and operations of the rule classes, that rules are applied first in each iteration, that rule_step is 1 exactly on grid arrivals tied to one grid, that rows are re-ruled in deterministic mode and rules are registered once.',
         'formula extraction + path-sensitive flag analysis'),
 'C10': ('DESIGN.md 3/C10', 'exactly-one disposition per firing, queue delivery typestate, sampler formulas',
         'Decides exactly-once structure of the delay loops and the Box-Muller / Marsaglia-Tsang formulas. The distributions themselves are NOT decided.',
         'path enumeration + formula comparison; partial evaluation of the delay loops (event race)'),
 'C11': ('DESIGN.md 3/C11', 'volume formulas (shared with C01), volume-step/queue-advance pairing, division exit, growth laws',
         'Decides volume-scaled formulas, that each elapsed dt is paired with exactly one volume step on every path, division leaves the loop and truncates consistently. Distributional statement NOT decided.',
         'formula comparison + path-sensitive pairing rule; partial evaluation of the volume loops (event race)'),
 'C12': ('DESIGN.md 3/C12', 'writer/reader annotation key agreement, exhaustiveness of type tables, field forwarding',
         'Decides agreement between the SBML annotation writer and reader (the reader code partially evaluated on the strings the writer code builds for sample reactions gives the sample back) and that nothing is dropped between model and writer. Round trip through libsbml NOT decided.',
         'string-template extraction + partial evaluation of reader after writer + table agreement'),
 'C13': ('DESIGN.md 3/C13', 'loop-carried state, rule translation, stoichiometry expansion, local-parameter renaming order',
         'Decides that no decision variable leaks between SBML elements, rule/rate-rule translation shape, stoichiometry expansion loops, rename-before-formula ordering, and (importer partially evaluated on three sample documents) that an un-annotated reaction gets its kinetic law as rate.',
         'reaching definitions with loop-carried detection + ordering rules + partial evaluation on sample documents'),
 'C14': ('DESIGN.md 3/C14', 'kinetic-law templates: identifier closure and value vs closed forms',
         'Decides completely the template clause: each exported kinetic-law template has only defined identifiers and equals the model rate law (sympy, with witness).',
         'string-template extraction + algebraic comparison'),
 'C15': ('DESIGN.md 3/C15', 'symbolic array shapes in extract_data, cost formula, set-up ordering',
         'Decides axis alignment of the data array (symbolic shapes), name alignment of measurement indices, cost formula shape, and that per-trajectory set-up and default reset dominate each simulation.',
         'symbolic shape analysis + must-pass-through; partial evaluation of the set-up methods on sample conditions (conditions handed on entry for entry)'),
 'C16': ('DESIGN.md 3/C16', 'density identity (sympy) and support rejection (interval x NaN abstract interpretation)',
         'Decides for the seven families that the returned expression is the log of the textbook density and that no out-of-support path can return a finite value.',
         'formula comparison + abstract interpretation of scalar functions; taint analysis (the caller\'s prior is never mutated); loop-carried-variable analysis of check_prior'),
 'C17': ('DESIGN.md 3/C17', 'getstate/setstate positional agreement, attribute coverage, picklability closure',
         'Decides positional agreement of all hand-written state methods, coverage of declared attributes and picklability (compiler-generated reducers) of every class reachable from a state tuple.',
         'table agreement over the class table + Cython declaration analysis'),
 'C18': ('DESIGN.md 3/C18', 'finite-difference stencil moment conditions, orientation, parameter restore typestate',
         'Decides order-p consistency of each stencil from its coefficients (exact rationals), J[i,j] orientation and that parameters are restored on every path.',
         'linear-form extraction + typestate; structural rules for the evaluation point (fresh contiguous state, forwarding wrappers); purity and closed forms of the rate laws re-emitted'),
 'C19': ('DESIGN.md 3/C19', 'partition write pairs, daughter construction, no phantom event, volume positivity test',
         'Decides conservation by construction in the partition methods, mutual links, and that no path samples an event when Lambda == 0 in the lineage loop.',
         'symbolic execution of partition() per species class (element view, helpers inlined) + path-sensitive flag analysis + partial evaluation of the time-advance block of the lineage loop on a value table'),
 'C20': ('DESIGN.md 3/C20', 'ring-buffer method obligations',
         'Every method of ArrayDelayQueue is checked against the ring-buffer specification (rounding, clamps, modular shift, accumulate, clear-before-advance, complete copies).',
         'syntax-tree rules per method against a ring-buffer specification'),
}

NOTE = ('Trusted: Cython 3.3.0 parser, CPython ast, sympy for equalities, the bsverif lowering/extractors and the '
        'specification tables. C doubles are treated as reals. Clauses listed as "not decided" in DESIGN.md are outside the claim.')


def main():
    checks, na = [], []
    for i in range(1, 21):
        pid = 'C%02d' % i
        ref, short, text, tech = P[pid]
        if os.path.exists(os.path.join(HERE, 'bsverif', 'rules', pid.lower() + '.py')):
            checks.append({
                'property_id': pid,
                'quick_cmd': './check %s' % pid,
                'thorough_cmd': './check %s --tier thorough' % pid,
                'evidence_file': '/verif/evidence/%s.json' % pid,
                'replay_cmd_template': './check %s --replay {path}' % pid,
                'engine': 'bsverif',
                'level_claimed': {'category': 'other', 'text': text, 'design_ref': ref},
                'level_note': NOTE,
                'technique': 'static analysis: ' + tech,
            })
        else:
            na.append({'property_id': pid, 'reason': 'static rule set designed (%s) but not implemented yet; not claimed until its check exists' % ref})
    m = {
        'version': 1,
        'setup_cmd': "/venv/bin/python -c 'import Cython.Compiler.Main, sympy; print(\"ok\")'",
        'hooks': {'guard': 'BIOCIRCUITS_BIOSCRAPE_VERIF', 'enable': 'no hooks: the checks read the source only',
                  'baseline_off_cmd': 'cd /repo && /venv/bin/python -m pytest -ra -q -p no:cacheprovider --timeout=900 --continue-on-collection-errors',
                  'source_commits': [], 'add_only': True},
        'engines': [{'name': 'bsverif', 'path': '/verif/bsverif',
                     'serves_properties': [c['property_id'] for c in checks],
                     'kind_free_text': 'static analysis over the Cython (PostParse) and Python syntax trees of /repo: class table, '
                                       'formula extraction (symbolic execution of loop-free code and accumulate loops), path enumeration with abstract flags, partial evaluation of code blocks on sample inputs (values are constants, named holes or unknown), table agreement'}],
        'checks': checks,
        'not_applicable': na,
        'notes': 'All checks read /repo (or $VERIF_REPO) source only; nothing of bioscrape is imported or executed. '
                 'Exit 2 + ANALYSIS-ERROR = the analyser could not decide (front-end failure, vanished anchor).',
    }
    with open(os.path.join(HERE, 'MANIFEST.json'), 'w') as f:
        json.dump(m, f, indent=1)
    print('claimed', len(checks), 'not_applicable', len(na))


if __name__ == '__main__':
    main()
